use vstd::prelude::*;
use vstd::std_specs::ops::*;
use std::ops::{BitAnd, BitOr, BitXor, Not, Shl, Shr, BitOrAssign, BitXorAssign, Sub};
verus! {

#[derive(Clone, Copy, PartialEq, Eq)]
pub struct Bitboard(pub u64);

impl BitAndSpecImpl for Bitboard {
    open spec fn obeys_bitand_spec() -> bool { true }
    open spec fn bitand_req(self, rhs: Self) -> bool { true }
    open spec fn bitand_spec(self, rhs: Self) -> Self { Bitboard(self.0 & rhs.0) }
}

impl BitAnd for Bitboard {
    type Output = Self;
    fn bitand(self, rhs: Self) -> (r: Self)
    {
        Self(self.0 & rhs.0)
    }
}

impl NotSpecImpl for Bitboard {
    open spec fn obeys_not_spec() -> bool { true }
    open spec fn not_req(self) -> bool { true }
    open spec fn not_spec(self) -> Self { Bitboard(!self.0) }
}

impl Not for Bitboard {
    type Output = Self;
    fn not(self) -> (r: Self)
    {
        Self(!self.0)
    }
}

impl BitOrAssignSpecImpl for Bitboard {
    open spec fn obeys_bitor_assign_spec() -> bool { true }
    open spec fn bitor_assign_req(&self, rhs: Self) -> bool { true }
    open spec fn bitor_assign_spec(&self, rhs: Self) -> &Self { &Bitboard(self.0 | rhs.0) }
}
impl BitOrAssign for Bitboard {
    fn bitor_assign(&mut self, rhs: Self)
    {
        self.0 |= rhs.0;
    }
}

fn test(a: Bitboard, b: Bitboard) -> (r: Bitboard)
    ensures r.0 == a.0 & !b.0
{
    let mut x = a & !b;
    x
}

fn test2(a: Bitboard, b: Bitboard) -> (r: Bitboard)
    ensures r.0 == a.0 | b.0
{
    let mut x = a;
    x |= b;
    x
}

} // verus!
fn main() {}
