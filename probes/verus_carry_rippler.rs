use vstd::prelude::*;
verus! {
proof fn carry_rippler(s: u64, m: u64, t: u64)
    requires s & !m == 0, t & !m == 0,
    ensures
        (sub(s, m) & m) & !m == 0,
        (sub(s, m) & m) == 0 <==> s == m,
        s != m ==> (sub(s, m) & m) > s,
        (s != m && t > s) ==> t >= (sub(s, m) & m),
{
    assert((sub(s, m) & m) & !m == 0) by(bit_vector);
    assert(((sub(s, m) & m) == 0 <==> s == m)) by(bit_vector) requires s & !m == 0;
    assert(s != m ==> (sub(s, m) & m) > s) by(bit_vector) requires s & !m == 0;
    assert((s != m && t > s) ==> t >= (sub(s, m) & m)) by(bit_vector) requires s & !m == 0, t & !m == 0;
}
}
fn main() {}
