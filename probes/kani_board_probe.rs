use crate::board::color::Color;
use crate::board::piece::Piece;
use crate::board::Board;
use crate::board::kani_support::*;
use crate::chess_move::capture::Capture;
use crate::chess_move::standard::StandardChessMove;
use common::bitboard::bitboard::Bitboard;

fn any_piece() -> Piece {
    let i: usize = kani::any();
    kani::assume(i < 6);
    Piece::from_usize(i)
}

fn any_color() -> Color {
    if kani::any() { Color::White } else { Color::Black }
}

fn any_square() -> Bitboard {
    let i: u8 = kani::any();
    kani::assume(i < 64);
    Bitboard(1u64 << i)
}

#[kani::proof]
#[kani::unwind(7)]
fn probe_pieceset() {
    let mut ps = any_piece_set();
    let s = any_square();
    let p = any_piece();
    let before = ps.clone();
    if ps.put(s, p).is_ok() {
        assert!(ps.get(s) == Some(p));
        assert!(ps.remove(s) == Some(p));
        assert!(ps == before);
    } else {
        assert!(before.is_occupied(s));
    }
}

#[kani::proof]
#[kani::unwind(7)]
fn probe_board_put_remove() {
    let mut b = any_board();
    let s = any_square();
    let p = any_piece();
    let c = any_color();
    let h = b.current_position_hash();
    if b.put(s, p, c).is_ok() {
        assert!(b.get(s) == Some((p, c)));
        assert!(b.remove(s) == Some((p, c)));
        assert!(b.current_position_hash() == h);
    }
}

#[kani::proof]
#[kani::unwind(7)]
fn probe_std_apply_undo() {
    let mut b = any_board();
    let s1 = any_square();
    let s2 = any_square();
    kani::assume(s1 != s2);
    let (p1, c1) = match b.get(s1) { Some(x) => x, None => { kani::assume(false); unreachable!() } };
    let cap = match b.get(s2) {
        Some((p2, c2)) => { kani::assume(c2 != c1); Some(Capture(p2)) }
        None => None,
    };
    let h = b.current_position_hash();
    let hm = b.halfmove_clock();
    let m = StandardChessMove::new(s1, s2, cap);
    assert!(m.apply(&mut b).is_ok());
    assert!(b.get(s2) == Some((p1, c1)));
    assert!(b.get(s1).is_none());
    assert!(m.undo(&mut b).is_ok());
    assert!(b.current_position_hash() == h);
    assert!(b.halfmove_clock() == hm);
    assert!(b.get(s1) == Some((p1, c1)));
}
// 
// // ---- injected into src/board/mod.rs (child module: sees private fields)
// #[cfg(kani)]
// pub mod kani_support {
//     use super::*;
//     use crate::board::piece_set::PieceSet;
// 
//     pub fn any_piece_set() -> PieceSet {
//         let b: [u64; 6] = kani::any();
//         // pairwise disjoint
//         kani::assume(b[0] & b[1] == 0);
//         kani::assume((b[0] | b[1]) & b[2] == 0);
//         kani::assume((b[0] | b[1] | b[2]) & b[3] == 0);
//         kani::assume((b[0] | b[1] | b[2] | b[3]) & b[4] == 0);
//         kani::assume((b[0] | b[1] | b[2] | b[3] | b[4]) & b[5] == 0);
//         PieceSet::from_raw(b)
//     }
// 
//     pub fn any_board() -> Board {
//         let white = any_piece_set();
//         let black = any_piece_set();
//         kani::assume(white.occupied().0 & black.occupied().0 == 0);
//         let mut b = Board::new();
//         b.white = white;
//         b.black = black;
//         b.position_info.set_hash(kani::any());
//         b
//     }
// }
// // ---- injected into src/board/piece_set.rs
// #[cfg(kani)]
// impl PieceSet {
//     pub fn from_raw(b: [u64; 6]) -> Self {
//         PieceSet {
//             bitboards: [Bitboard(b[0]), Bitboard(b[1]), Bitboard(b[2]), Bitboard(b[3]), Bitboard(b[4]), Bitboard(b[5])],
//             occupied: Bitboard(b[0] | b[1] | b[2] | b[3] | b[4] | b[5]),
//         }
//     }
// }
// // ---- injected into src/board/position_info.rs
// #[cfg(kani)]
// impl PositionInfo {
//     pub fn set_hash(&mut self, h: u64) { self.current_position_hash = h; }
// }
// // ---- injected into src/move_generator/mod.rs (knight table: 22 s)
// #[cfg(kani)]
// mod verif_kani {
//     use super::targets::{generate_king_targets_table, generate_knight_targets_table};
// 
//     fn knight_spec(i: i32) -> u64 {
//         let r = i / 8;
//         let f = i % 8;
//         let ds: [(i32, i32); 8] = [(2, 1), (1, 2), (-1, 2), (-2, 1), (2, -1), (1, -2), (-1, -2), (-2, -1)];
//         let mut out = 0u64;
//         let mut k = 0;
//         while k < 8 {
//             let (dr, df) = ds[k];
//             let nr = r + dr;
//             let nf = f + df;
//             if nr >= 0 && nr < 8 && nf >= 0 && nf < 8 {
//                 out |= 1u64 << (nr * 8 + nf);
//             }
//             k += 1;
//         }
//         out
//     }
// 
//     #[kani::proof]
//     #[kani::unwind(66)]
//     fn knight_table_exact() {
//         let t = generate_knight_targets_table();
//         let i: usize = kani::any();
//         kani::assume(i < 64);
//         assert!(t[i].0 == knight_spec(i as i32));
//     }
// }
// // ---- injected into src/move_generator/magic_table.rs (bishop table: >6 GB, abandoned)
// #[cfg(kani)]
// mod verif_kani {
//     use super::*;
// 
//     fn ray_spec(deltas: &[(i32, i32); 4], sq: u32, occ: u64) -> u64 {
//         let mut out = 0u64;
//         let mut d = 0;
//         while d < 4 {
//             let (dr, df) = deltas[d];
//             let mut r = (sq / 8) as i32 + dr;
//             let mut f = (sq % 8) as i32 + df;
//             while r >= 0 && r < 8 && f >= 0 && f < 8 {
//                 let b = 1u64 << (r * 8 + f);
//                 out |= b;
//                 if occ & b != 0 { break; }
//                 r += dr;
//                 f += df;
//             }
//             d += 1;
//         }
//         out
//     }
// 
//     #[kani::proof]
//     #[kani::unwind(5300)]
//     fn bishop_table_exact() {
//         let table = make_table(
//             BISHOP_TABLE_SIZE,
//             &[(1, 1), (1, -1), (-1, -1), (-1, 1)],
//             BISHOP_MAGICS,
//         );
//         let sq: u32 = kani::any();
//         kani::assume(sq < 64);
//         let occ: u64 = kani::any();
//         let magic = &BISHOP_MAGICS[sq as usize];
//         let got = table[magic_index(magic, Bitboard(occ))];
//         assert!(got.0 == ray_spec(&[(1, 1), (1, -1), (-1, -1), (-1, 1)], sq, occ));
//     }
// }
