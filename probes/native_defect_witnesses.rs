use chess::board::Board;
use chess::board::color::Color;
use chess::chess_move::chess_move::ChessMove;
use chess::chess_move::standard::StandardChessMove;
use chess::move_generator::MoveGenerator;
use chess::alpha_beta_searcher::{alpha_beta_search, SearchContext};
use chess::board::piece::Piece;
use common::bitboard::square::*;
use common::bitboard::bitboard::Bitboard;

fn mv(f: Bitboard, t: Bitboard) -> ChessMove { ChessMove::Standard(StandardChessMove::new(f, t, None)) }

#[test]
fn ep_hash_path_dependence() {
    let mut b1 = Board::starting_position();
    for m in [mv(A2, A4), mv(H7, H6), mv(A4, A5), mv(B7, B5)] { m.apply(&mut b1).unwrap(); }
    let mut b2 = Board::starting_position();
    for m in [mv(A2, A4), mv(B7, B5), mv(A4, A5), mv(H7, H6)] { m.apply(&mut b2).unwrap(); }
    println!("ep1={:?} ep2={:?} h1={} h2={}", b1.peek_en_passant_target(), b2.peek_en_passant_target(), b1.current_position_hash(), b2.current_position_hash());
    let mut g = MoveGenerator::new();
    let n1 = g.generate_moves(&mut b1, Color::White).len();
    let n2 = g.generate_moves(&mut b2, Color::White).len();
    let n2f = MoveGenerator::new().generate_moves(&mut b2, Color::White).len();
    println!("n1={} n2(shared gen)={} n2(fresh)={}", n1, n2, n2f);
    // same placement, e.g. 1.e4 e5 vs hash of set-up board
    let mut b3 = Board::starting_position();
    for m in [mv(E2, E4), mv(E7, E5)] { m.apply(&mut b3).unwrap(); }
    let mut b4 = Board::starting_position();
    for m in [mv(E2, E3), mv(E7, E6), mv(E3, E4), mv(E6, E5)] { m.apply(&mut b4).unwrap(); }
    println!("b3 ep={:?} b4 ep={:?} equalhash={}", b3.peek_en_passant_target(), b4.peek_en_passant_target(), b3.current_position_hash()==b4.current_position_hash());
}

#[test]
fn halfmove_pawn() {
    let mut b = Board::starting_position();
    mv(G1, F3).apply(&mut b).unwrap();
    mv(E7, E5).apply(&mut b).unwrap();
    println!("halfmove after Nf3 e5 = {}", b.halfmove_clock());
}

#[test]
fn search_no_moves() {
    // fool's mate position: white is checkmated
    let mut b = Board::starting_position();
    for m in [mv(F2, F3), mv(E7, E6), mv(G2, G4), mv(D8, H4)] { m.apply(&mut b).unwrap(); }
    b.set_turn(Color::White);
    let mut ctx = SearchContext::new(2);
    let mut g = MoveGenerator::new();
    let r = std::panic::catch_unwind(std::panic::AssertUnwindSafe(|| alpha_beta_search(&mut ctx, &mut b, &mut g).is_ok()));
    println!("search on mated position: {:?}", r.is_err());
}

#[test]
fn fullmove_overflow() {
    let mut b = Board::new();
    b.put(A1, Piece::King, Color::White).unwrap();
    b.put(H8, Piece::King, Color::Black).unwrap();
    b.lose_castle_rights(0b1111);
    let r = std::panic::catch_unwind(std::panic::AssertUnwindSafe(|| {
        for i in 0..300 {
            let (f,t) = if i % 4 == 0 {(A1,A2)} else if i%4==1 {(H8,H7)} else if i%4==2 {(A2,A1)} else {(H7,H8)};
            mv(f,t).apply(&mut b).unwrap();
        }
    }));
    println!("300 quiet plies panicked: {:?} fullmove={} halfmove={}", r.is_err(), b.fullmove_clock(), b.halfmove_clock());
}
