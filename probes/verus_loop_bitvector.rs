use vstd::prelude::*;
use vstd::std_specs::ops::*;
use std::ops::{BitAnd, BitOr, BitXor, Not, Shl, Shr, BitOrAssign, BitXorAssign, Sub};
verus! {

#[derive(Clone, Copy, PartialEq, Debug, PartialOrd, Eq, Ord, Hash)]
pub struct Bitboard(pub u64);

impl Bitboard {
    pub const EMPTY: Self = Self(0x0000000000000000);
    pub const A_FILE: Self = Self(0x0101010101010101);
    pub const H_FILE: Self = Self(0x8080808080808080);
    pub fn overlaps(&self, other: Self) -> (r: bool)
        ensures r == ((self.0 & other.0) != 0)
    {
        (self.0 & other.0) != 0
    }
}
impl BitAndSpecImpl for Bitboard {
    open spec fn obeys_bitand_spec() -> bool { true }
    open spec fn bitand_req(self, rhs: Self) -> bool { true }
    open spec fn bitand_spec(self, rhs: Self) -> Self { Bitboard(self.0 & rhs.0) }
}
impl BitAnd for Bitboard { type Output = Self; fn bitand(self, rhs: Self) -> Self { Self(self.0 & rhs.0) } }
impl BitOrSpecImpl for Bitboard {
    open spec fn obeys_bitor_spec() -> bool { true }
    open spec fn bitor_req(self, rhs: Self) -> bool { true }
    open spec fn bitor_spec(self, rhs: Self) -> Self { Bitboard(self.0 | rhs.0) }
}
impl BitOr for Bitboard { type Output = Self; fn bitor(self, rhs: Self) -> Self { Self(self.0 | rhs.0) } }
impl NotSpecImpl for Bitboard {
    open spec fn obeys_not_spec() -> bool { true }
    open spec fn not_req(self) -> bool { true }
    open spec fn not_spec(self) -> Self { Bitboard(!self.0) }
}
impl Not for Bitboard { type Output = Self; fn not(self) -> Self { Self(!self.0) } }
impl ShlSpecImpl<usize> for Bitboard {
    open spec fn obeys_shl_spec() -> bool { true }
    open spec fn shl_req(self, rhs: usize) -> bool { rhs < 64 }
    open spec fn shl_spec(self, rhs: usize) -> Self { Bitboard(self.0 << rhs) }
}
impl Shl<usize> for Bitboard { type Output = Self; fn shl(self, rhs: usize) -> Self { Self(self.0 << rhs) } }
impl ShrSpecImpl<usize> for Bitboard {
    open spec fn obeys_shr_spec() -> bool { true }
    open spec fn shr_req(self, rhs: usize) -> bool { rhs < 64 }
    open spec fn shr_spec(self, rhs: usize) -> Self { Bitboard(self.0 >> rhs) }
}
impl Shr<usize> for Bitboard { type Output = Self; fn shr(self, rhs: usize) -> Self { Self(self.0 >> rhs) } }

#[derive(Clone, Copy, PartialEq, Debug, Eq, PartialOrd, Ord)]
pub enum Color { Black = 0, White = 1 }

pub type PieceTarget = (Bitboard, Bitboard);
pub type PieceTargetList = Vec<PieceTarget>;

// spec: squares attacked by a pawn of `white` on square index i
pub open spec fn pawn_attacks_spec(white: bool, i: int) -> u64 {
    let r = i / 8; let f = i % 8;
    let nr = if white { r + 1 } else { r - 1 };
    let east: u64 = if 0 <= nr < 8 && f + 1 < 8 { (1u64 << ((nr * 8 + f + 1) as u64)) } else { 0 };
    let west: u64 = if 0 <= nr < 8 && f - 1 >= 0 { (1u64 << ((nr * 8 + f - 1) as u64)) } else { 0 };
    east | west
}

pub fn generate_pawn_attack_targets(
    piece_targets: &mut PieceTargetList,
    pawns: Bitboard,
    color: Color,
)
    ensures
        final(piece_targets)@.len() >= old(piece_targets)@.len(),
{
    let mut __it0: u32 = 0;
    while __it0 < 64
        invariant piece_targets@.len() >= old(piece_targets)@.len(), __it0 <= 64,
        decreases 64 - __it0,
    {
        let x = __it0; __it0 += 1;
        let pawn = Bitboard(1 << x);
        if !pawns.overlaps(pawn) {
            continue;
        }

        let attack_west = match color {
            Color::White => (pawn << 9) & !Bitboard::A_FILE,
            Color::Black => (pawn >> 7) & !Bitboard::A_FILE,
        };

        let attack_east = match color {
            Color::White => (pawn << 7) & !Bitboard::H_FILE,
            Color::Black => (pawn >> 9) & !Bitboard::H_FILE,
        };

        let targets = attack_east | attack_west;
        piece_targets.push((pawn, targets));
    }
}

proof fn lemma_white_pawn(i: u64)
    requires i < 64
    ensures
        ((((1u64 << i) << 9u64) & !0x0101010101010101u64) | (((1u64 << i) << 7u64) & !0x8080808080808080u64))
          == (if i / 8 + 1 < 8 && i % 8 + 1 < 8 { 1u64 << ((i / 8 + 1) * 8 + i % 8 + 1) } else { 0u64 })
           | (if i / 8 + 1 < 8 && i % 8 >= 1 { 1u64 << (((i / 8 + 1) * 8 + i % 8 - 1) as u64) } else { 0u64 })
{
    assert(
        ((((1u64 << i) << 9u64) & !0x0101010101010101u64) | (((1u64 << i) << 7u64) & !0x8080808080808080u64))
          == (if i / 8 + 1 < 8 && i % 8 + 1 < 8 { 1u64 << ((i / 8 + 1) * 8 + i % 8 + 1) } else { 0u64 })
           | (if i / 8 + 1 < 8 && i % 8 >= 1 { 1u64 << (((i / 8 + 1) * 8 + i % 8 - 1) as u64) } else { 0u64 })
    ) by(bit_vector) requires i < 64;
}

} // verus!
fn main() {}
