use vstd::prelude::*;
verus! {

pub uninterp spec fn key(p: int, i: int, c: int) -> u64;

pub open spec fn bit(x: u64, i: nat) -> bool { (x >> (i as u64)) & 1 == 1 }

pub open spec fn fold_bb(bb: u64, p: int, c: int, n: nat) -> u64
    decreases n
{
    if n == 0 { 0 } else {
        let rest = fold_bb(bb, p, c, (n - 1) as nat);
        if bit(bb, (n - 1) as nat) { rest ^ key(p, n - 1, c) } else { rest }
    }
}

proof fn lemma_bit_toggle(bb: u64, k: u64, j: u64)
    requires k < 64, j < 64
    ensures
        bit(bb ^ (1u64 << k), j as nat) == (if j == k { !bit(bb, j as nat) } else { bit(bb, j as nat) }),
{
    assert(((bb ^ (1u64 << k)) >> j) & 1 == (if j == k { ((bb >> j) & 1) ^ 1 } else { (bb >> j) & 1 })) by(bit_vector)
        requires k < 64, j < 64;
    assert(((bb >> j) & 1) == 0 || ((bb >> j) & 1) == 1) by(bit_vector);
    assert(0u64 ^ 1 == 1 && 1u64 ^ 1 == 0) by(bit_vector);
    assert((j as nat) as u64 == j);
}

proof fn lemma_fold_toggle(bb: u64, p: int, c: int, k: u64, n: nat)
    requires k < 64, n <= 64
    ensures
        fold_bb(bb ^ (1u64 << k), p, c, n) == (if (k as nat) < n { fold_bb(bb, p, c, n) ^ key(p, k as int, c) } else { fold_bb(bb, p, c, n) }),
    decreases n
{
    if n == 0 {
    } else {
        lemma_fold_toggle(bb, p, c, k, (n - 1) as nat);
        lemma_bit_toggle(bb, k, (n - 1) as u64);
        let a = fold_bb(bb, p, c, (n - 1) as nat);
        let kk = key(p, k as int, c);
        let kn = key(p, n - 1, c);
        assert(forall|x: u64, y: u64, z: u64| #![auto] (x ^ y) ^ z == (x ^ z) ^ y) by(bit_vector);
        assert(forall|x: u64, y: u64| #![auto] (x ^ y) ^ y == x) by(bit_vector);
    }
}

// set a previously-clear bit via OR == toggle
proof fn lemma_or_is_xor(bb: u64, s: u64)
    requires bb & s == 0
    ensures bb | s == bb ^ s
{
    assert(bb & s == 0 ==> bb | s == bb ^ s) by(bit_vector);
}

}
fn main() {}
