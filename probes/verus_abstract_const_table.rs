use vstd::prelude::*;
verus! {
pub uninterp spec fn zc() -> [u64; 16];

#[verifier::external_body]
pub exec const ZOBRIST_CASTLING_RIGHTS_TABLE: [u64; 16]
    ensures ZOBRIST_CASTLING_RIGHTS_TABLE == zc()
{
    [0u64; 16]
}

pub struct PositionInfo { pub current_position_hash: u64 }
impl PositionInfo {
    pub fn update_zobrist_hash_toggle_castling_rights(&mut self, castling_rights: u8)
        requires castling_rights < 16
        ensures final(self).current_position_hash == old(self).current_position_hash ^ zc()[castling_rights as int]
    {
        self.current_position_hash ^= ZOBRIST_CASTLING_RIGHTS_TABLE[castling_rights as usize];
    }
}
}
fn main() {}
