use vstd::prelude::*;
use vstd::std_specs::ops::*;
use std::ops::{Shl, BitAnd, Sub};
verus! {
#[derive(Clone, Copy, PartialEq, Eq)]
pub struct Bitboard(pub u64);
impl Bitboard {
    pub fn is_empty(&self) -> (r: bool) ensures r == (self.0 == 0) { self.0 == 0 }
}
impl ShlSpecImpl<usize> for Bitboard {
    open spec fn obeys_shl_spec() -> bool { true }
    open spec fn shl_req(self, rhs: usize) -> bool { rhs < 64 }
    open spec fn shl_spec(self, rhs: usize) -> Self { Bitboard(self.0 << rhs) }
}
impl Shl<usize> for Bitboard { type Output = Self; fn shl(self, rhs: usize) -> Self { Self(self.0 << rhs) } }
impl BitAndSpecImpl for Bitboard {
    open spec fn obeys_bitand_spec() -> bool { true }
    open spec fn bitand_req(self, rhs: Self) -> bool { true }
    open spec fn bitand_spec(self, rhs: Self) -> Self { Bitboard(self.0 & rhs.0) }
}
impl BitAnd for Bitboard { type Output = Self; fn bitand(self, rhs: Self) -> Self { Self(self.0 & rhs.0) } }
impl SubSpecImpl for Bitboard {
    open spec fn obeys_sub_spec() -> bool { true }
    open spec fn sub_req(self, rhs: Self) -> bool { self.0 >= rhs.0 }
    open spec fn sub_spec(self, rhs: Self) -> Self { Bitboard((self.0 - rhs.0) as u64) }
}
impl Sub for Bitboard { type Output = Self; fn sub(self, rhs: Self) -> Self { Self(self.0 - rhs.0) } }

pub fn is_square(maybe_square: Bitboard) -> bool
    requires maybe_square.0 >= 1
{
    // it's a square if only 1 bit is set
    (maybe_square & (maybe_square - Bitboard(1))).is_empty()
}

pub fn from_rank_file(rank: u8, file: u8) -> (r: Bitboard)
    requires rank < 8, file < 8
    ensures r.0 == 1u64 << ((rank * 8 + file) as u64)
{
    Bitboard(1) << (file + rank * 8).into()
}

pub open spec fn sqi(i: int) -> u64 { 1u64 << (i as u64) }
pub open spec fn is_sq(b: Bitboard) -> bool { exists|i: int| 0 <= i < 64 && b.0 == sqi(i) }
pub open spec fn idx(b: Bitboard) -> int { choose|i: int| 0 <= i < 64 && b.0 == sqi(i) }

proof fn lemma_tz(i: u64)
    requires i < 64
    ensures vstd::std_specs::bits::u64_trailing_zeros(1u64 << i) == i
{
    vstd::std_specs::bits::axiom_u64_trailing_zeros(1u64 << i);
    let t = vstd::std_specs::bits::u64_trailing_zeros(1u64 << i) as u64;
    assert(1u64 << i != 0) by(bit_vector) requires i < 64;
    assert(t < 64);
    assert(((1u64 << i) >> t) & 1 == 1 && (1u64 << i) << sub(64, t) == 0 ==> t == i) by(bit_vector) requires i < 64, t < 64;
}
proof fn lemma_sq_inj(i: u64, j: u64)
    requires i < 64, j < 64, 1u64 << i == 1u64 << j
    ensures i == j
{
    assert(1u64 << i == 1u64 << j ==> i == j) by(bit_vector) requires i < 64, j < 64;
}

pub fn to_rank_file(square: Bitboard) -> (r: (u8, u8))
    requires is_sq(square)
    ensures r.0 as int == idx(square) / 8, r.1 as int == idx(square) % 8
{
    proof {
        let k = idx(square);
        lemma_tz(k as u64);
        let ku = k as u64;
        assert(1u64 << ku != 0) by(bit_vector) requires ku < 64;
    }
    let i = square.0.trailing_zeros();
    (i as u8 / 8, i as u8 % 8)
}

fn try_offset(square: Bitboard, d_rank: i8, d_file: i8) -> Option<Bitboard>
    requires square.0 != 0, -1 <= d_rank <= 1, -1 <= d_file <= 1
{
    let rank_file_u8 = to_rank_file(square);
    let rank = rank_file_u8.0 as i8;
    let file = rank_file_u8.1 as i8;
    let new_rank = rank.wrapping_add(d_rank);
    let new_file = file.wrapping_add(d_file);
    if !(0..8).contains(&new_rank) || !(0..8).contains(&new_file) {
        None
    } else {
        Some(from_rank_file(new_rank as u8, new_file as u8))
    }
}
}
fn main() {}
