import re,sys
R='/repo/'
def read(p): return open(R+p).read()
def strip_tests(s):
    i=s.find('#[cfg(test)]')
    return s if i<0 else s[:i]
def strip_uses(s):
    s=s.replace('use super::*;','@@USESUPER@@')
    # remove use statements (possibly multi-line)
    return re.sub(r'(?m)^\s*(pub\s+)?use\s[^;]*;\s*$', '', s).replace('@@USESUPER@@','use super::*;')
def drop_fn(s,name):
    # remove a fn item by name (brace matching)
    m=re.search(r'(?m)^(\s*)(pub\s+)?fn\s+'+name+r'\b',s)
    if not m: return s
    i=s.index('{',m.start()); d=0; j=i
    while True:
        if s[j]=='{': d+=1
        elif s[j]=='}':
            d-=1
            if d==0: break
        j+=1
    return s[:m.start()]+s[j+1:]
def drop_impl(s,pat):
    m=re.search(pat,s)
    if not m: return s
    i=s.index('{',m.start()); d=0; j=i
    while True:
        if s[j]=='{': d+=1
        elif s[j]=='}':
            d-=1
            if d==0: break
        j+=1
    return s[:m.start()]+s[j+1:]
def drop_macro_rules(s):
    while True:
        m=re.search(r'(?m)^(#\[macro_export\]\s*)?macro_rules!\s*\w+\s*\{',s)
        if not m: return s
        i=s.index('{',m.start()); d=0; j=i
        while True:
            if s[j]=='{': d+=1
            elif s[j]=='}':
                d-=1
                if d==0: break
            j+=1
        s=s[:m.start()]+s[j+1:]

out=[]
# common bitboard
bb=strip_uses(strip_tests(read('common/src/bitboard/bitboard.rs')))
# expand macros
macros={}
for m in re.finditer(r'macro_rules!\s*(\w+)\s*\{\s*\(([^)]*)\)\s*=>\s*\{',bb):
    name=m.group(1); params=[p.strip().split(':')[0] for p in m.group(2).split(',')]
    i=m.end()-1; d=0; j=i
    while True:
        if bb[j]=='{': d+=1
        elif bb[j]=='}':
            d-=1
            if d==0: break
        j+=1
    macros[name]=(params,bb[i+1:j])
inv=[]
for m in re.finditer(r'(?m)^(impl_\w+)!\(([^)]*)\);',bb):
    params,body=macros[m.group(1)]
    args=[a.strip() for a in m.group(2).split(',')]
    t=body
    for p,a in zip(params,args): t=t.replace(p,a)
    inv.append(t)
bb=drop_macro_rules(bb)
bb=re.sub(r'(?m)^impl_\w+!\([^)]*\);','',bb)
bb=drop_impl(bb,r'impl Display for Bitboard')
out.append(bb+'\n'.join(inv))
sq=strip_uses(strip_tests(read('common/src/bitboard/square.rs')))
sq=drop_fn(sq,'square_string_to_bitboard').replace('[&str;','[&\'static str;')
out.append(sq)
for f in ['src/board/castle_rights_bitmask.rs','src/board/color.rs','src/board/piece.rs','src/board/error.rs','src/board/piece_set.rs','src/board/move_info.rs','src/board/position_info.rs','src/board/mod.rs',
          'src/chess_move/capture.rs','src/chess_move/chess_move_effect.rs','src/chess_move/standard.rs','src/chess_move/castle.rs','src/chess_move/en_passant.rs','src/chess_move/pawn_promotion.rs','src/chess_move/chess_move.rs','src/move_generator/magic_table.rs','src/move_generator/targets.rs','src/evaluate/evaluation_tables.rs','src/evaluate/mod.rs','src/move_generator/mod.rs']:
    s=strip_uses(strip_tests(read(f)))
    s=drop_macro_rules(s)
    s=re.sub(r'(?m)^\s*(pub\s+)?mod\s+\w+;\s*$','',s)
    s=re.sub(r'(?ms)^impl\s+(fmt::)?(Display|Debug)\s+for\s+\w+\s*\{.*?^\}\s*$','',s)
    s=re.sub(r'(?ms)^impl\s+FromStr\s+for\s+\w+\s*\{.*?^\}\s*$','',s)
    s=re.sub(r'(?m)^\s*#\[error\([^\]]*\]\s*$','',s)
    s=re.sub(r'(?ms)#\[error\(.*?\)\]','',s)
    s=s.replace('#[derive(Error, Debug)]','#[derive(Debug)]')
    s=re.sub(r'(?ms)^\s*debug!\(.*?\);\s*$','',s)
    s=s.replace('include!(concat!(env!("OUT_DIR"), "/zobrist_table.rs"));','')
    s=s.replace('for (i, &bitboard) in self.bitboards.iter().enumerate() {','for i in 0..self.bitboards.len() { let bitboard = self.bitboards[i];')
    s=s.replace('FxHashMap<u64, u8>','FxHashMapStub')
    s=s.replace('[&str;','[&\'static str;')
    s=drop_fn(s,'starting_position')
    s=drop_fn(s,'random')
    s=s.replace('include!(concat!(env!("OUT_DIR"), "/magic_table.rs"));',open('/repo/target/debug/build/chess-ffadb0dcf08e6f45/out/magic_table.rs').read())
    s=re.sub(r'SmallVec<\[([^;\]]+); \d+\]>', r'Vec<\1>', s)
    s=s.replace('smallvec![]','Vec::new()')
    s=s.replace('LruCache<(u64, u8), ChessMoveList>','LruCacheStub')
    s=s.replace('LruCache::new(NonZeroUsize::new(100_000_000).unwrap())','LruCacheStub::new()')
    s=s.replace('FxHashMap<(u8, u64), Bitboard>','FxHashMapStub2')
    s=s.replace('.map(Capture)','.map(|x_| Capture(x_))')
    s=s.replace('mod evaluation_tables;','')
    s=re.sub(r'for &(\([^)]*\)|\w+) in &?([\w.]+) \{', lambda m: 'for i__ in 0..%s.len() { let %s = %s[i__];' % (m.group(2), m.group(1), m.group(2)), s)
    s=s.replace('fn generate_pawn_moves','#[verifier::external_body] fn generate_pawn_moves')
    s=s.replace('attacks_cache: FxHashMap::default()','attacks_cache: FxHashMapStub2::default()')
    s=s.replace('panic!("invalid piece type for precomputed targets: {}", piece)','panic!("invalid piece type for precomputed targets")')
    s=drop_fn(s,'count_positions') if 'move_generator/mod' in f else s
    s=s.replace('MAGICS: &[MagicEntry; 64]','MAGICS: &\'static [MagicEntry; 64]')
    s=s.replace('|_| ()','|_x| ()')
    s=drop_fn(s,'count_current_position')
    s=drop_fn(s,'uncount_current_position')
    s=s.replace('#[derive(PartialEq, Clone, Eq, PartialOrd, Ord)]','#[derive(PartialEq, Clone, Eq, PartialOrd, Ord, Debug)]')
    s=s.replace('FxHashMap::default()','FxHashMapStub::default()')
    out.append('// ---- '+f+'\n'+s)
pre='''use vstd::prelude::*;
use vstd::std_specs::ops::*;
use std::ops::{Add, BitAnd, BitAndAssign, BitOr, BitOrAssign, BitXor, BitXorAssign, Not, Shl, ShlAssign, Shr, ShrAssign, Sub};
verus! {
#[verifier::external_body]
pub struct FxHashMapStub { x: u8 }
impl Clone for FxHashMapStub { #[verifier::external_body] fn clone(&self) -> Self { unimplemented!() } }
impl FxHashMapStub { #[verifier::external_body] pub fn default() -> Self { unimplemented!() } }
#[verifier::external_body]
pub struct LruCacheStub { x: u8 }
impl LruCacheStub {
  #[verifier::external_body] pub fn new() -> Self { unimplemented!() }
  #[verifier::external_body] pub fn get(&mut self, k: &(u64,u8)) -> Option<&Vec<ChessMove>> { unimplemented!() }
  #[verifier::external_body] pub fn put(&mut self, k: (u64,u8), v: Vec<ChessMove>) -> Option<Vec<ChessMove>> { unimplemented!() }
  #[verifier::external_body] pub fn len(&self) -> usize { unimplemented!() }
}
#[verifier::external_body]
pub struct FxHashMapStub2 { x: u8 }
impl FxHashMapStub2 {
  #[verifier::external_body] pub fn default() -> Self { unimplemented!() }
  #[verifier::external_body] pub fn get(&self, k: &(u8,u64)) -> Option<&Bitboard> { unimplemented!() }
  #[verifier::external_body] pub fn insert(&mut self, k: (u8,u64), v: Bitboard) -> Option<Bitboard> { unimplemented!() }
}
pub struct MagicEntry0 { }
pub assume_specification [u64::count_ones] (x: u64) -> (r: u32) ensures r <= 64;
#[verifier::external_body] pub exec const ZOBRIST_PIECES_TABLE: [[[u64; 2]; 64]; 6] = [[[0u64; 2]; 64]; 6];
#[verifier::external_body] pub exec const ZOBRIST_CASTLING_RIGHTS_TABLE: [u64; 16] = [0u64; 16];
#[verifier::external_body] pub exec const ZOBRIST_EN_PASSANT_TABLE: [u64; 64] = [0u64; 64];
'''
open('all2.rs','w').write(pre+'\n'.join(out)+'\n} // verus!\nfn main() {}\n')
