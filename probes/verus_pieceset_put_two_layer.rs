use vstd::prelude::*;
use vstd::std_specs::ops::*;
use std::ops::{BitOrAssign, BitXorAssign, BitAnd, BitOr, Not};
verus! {

#[derive(Clone, Copy, PartialEq, Eq)]
pub struct Bitboard(pub u64);

impl Bitboard {
    pub const EMPTY: Self = Self(0x0000000000000000);
    pub fn overlaps(&self, other: Self) -> (r: bool)
        ensures r == ((self.0 & other.0) != 0)
    { (self.0 & other.0) != 0 }
    pub fn is_empty(&self) -> (r: bool) ensures r == (self.0 == 0) { self.0 == 0 }
    pub fn trailing_zeros(&self) -> (r: u32)
        ensures r == tz(self.0)
    { self.0.trailing_zeros() }
}
pub open spec fn tz(x: u64) -> u32 { vstd::std_specs::bits::u64_trailing_zeros(x) }

impl BitOrAssignSpecImpl for Bitboard {
    open spec fn obeys_bitor_assign_spec() -> bool { true }
    open spec fn bitor_assign_req(&self, rhs: Self) -> bool { true }
    open spec fn bitor_assign_spec(&self, rhs: Self) -> &Self { &Bitboard(self.0 | rhs.0) }
}
impl BitOrAssign for Bitboard { fn bitor_assign(&mut self, rhs: Self) { self.0 |= rhs.0; } }
impl BitXorAssignSpecImpl for Bitboard {
    open spec fn obeys_bitxor_assign_spec() -> bool { true }
    open spec fn bitxor_assign_req(&self, rhs: Self) -> bool { true }
    open spec fn bitxor_assign_spec(&self, rhs: Self) -> &Self { &Bitboard(self.0 ^ rhs.0) }
}
impl BitXorAssign for Bitboard { fn bitxor_assign(&mut self, rhs: Self) { self.0 ^= rhs.0; } }
impl BitOrSpecImpl for Bitboard {
    open spec fn obeys_bitor_spec() -> bool { true }
    open spec fn bitor_req(self, rhs: Self) -> bool { true }
    open spec fn bitor_spec(self, rhs: Self) -> Self { Bitboard(self.0 | rhs.0) }
}
impl BitOr for Bitboard { type Output = Self; fn bitor(self, rhs: Self) -> Self { Self(self.0 | rhs.0) } }
impl BitAndSpecImpl for Bitboard {
    open spec fn obeys_bitand_spec() -> bool { true }
    open spec fn bitand_req(self, rhs: Self) -> bool { true }
    open spec fn bitand_spec(self, rhs: Self) -> Self { Bitboard(self.0 & rhs.0) }
}
impl BitAnd for Bitboard { type Output = Self; fn bitand(self, rhs: Self) -> Self { Self(self.0 & rhs.0) } }

#[derive(Clone, Copy, PartialEq, Eq)]
pub enum Piece { Pawn, Knight, Bishop, Rook, Queen, King }
#[derive(Clone, Copy, PartialEq, Eq)]
pub enum Color { Black = 0, White = 1 }

impl Piece {
    pub fn from_usize(i: usize) -> (r: Self)
        requires i < 6
        ensures r as usize == i
    {
        match i {
            0 => Piece::Pawn, 1 => Piece::Knight, 2 => Piece::Bishop,
            3 => Piece::Rook, 4 => Piece::Queen, 5 => Piece::King,
            _ => panic!("Invalid piece index"),
        }
    }
}
pub enum BoardError { SquareOccupiedBoardPutError }

pub struct PieceSet { pub bitboards: [Bitboard; 6], pub occupied: Bitboard }

// ---------- spec vocabulary
pub open spec fn is_sq(b: Bitboard) -> bool { exists|i: u64| i < 64 && b.0 == 1u64 << i }
pub open spec fn bit_set(x: u64, i: int) -> bool { 0 <= i < 64 && (x >> (i as u64)) & 1 == 1 }

impl PieceSet {
    pub open spec fn wf(&self) -> bool {
        &&& forall|p: int, q: int| 0 <= p < q < 6 ==> #[trigger] self.bitboards[p].0 & #[trigger] self.bitboards[q].0 == 0
        &&& self.occupied.0 == self.bitboards[0].0 | self.bitboards[1].0 | self.bitboards[2].0 | self.bitboards[3].0 | self.bitboards[4].0 | self.bitboards[5].0
    }
    // piece index at square bit `b` (one-bit board), or -1
    pub open spec fn at(&self, b: u64) -> int {
        if self.bitboards[0].0 & b != 0 { 0 } else if self.bitboards[1].0 & b != 0 { 1 }
        else if self.bitboards[2].0 & b != 0 { 2 } else if self.bitboards[3].0 & b != 0 { 3 }
        else if self.bitboards[4].0 & b != 0 { 4 } else if self.bitboards[5].0 & b != 0 { 5 } else { -1 }
    }

    pub fn get(&self, square: Bitboard) -> (r: Option<Piece>)
        ensures
            match r { Some(p) => self.at(square.0) == p as int, None => self.at(square.0) == -1 },
    {
        let mut i = 0;
        while i < self.bitboards.len()
            invariant 0 <= i <= 6, forall|j: int| 0 <= j < i ==> self.bitboards[j].0 & square.0 == 0,
            decreases 6 - i,
        {
            let bitboard = self.bitboards[i];
            if bitboard.overlaps(square) {
                return Some(Piece::from_usize(i));
            }
            i += 1;
        }
        None
    }

    pub fn is_occupied(&self, square: Bitboard) -> (r: bool)
        ensures r == (self.occupied.0 & square.0 != 0)
    { self.occupied.overlaps(square) }

    pub fn put(&mut self, square: Bitboard, piece: Piece) -> (r: Result<(), BoardError>)
        requires old(self).wf(), square.0 != 0,
        ensures
            r is Ok <==> old(self).occupied.0 & square.0 == 0,
            r is Err ==> *final(self) == *old(self),
            r is Ok ==> final(self).occupied.0 == old(self).occupied.0 | square.0
                && final(self).bitboards[piece as int].0 == old(self).bitboards[piece as int].0 | square.0
                && (forall|q: int| 0 <= q < 6 && q != piece as int ==> final(self).bitboards[q] == old(self).bitboards[q]),
            final(self).wf(),
    {
        if self.is_occupied(square) {
            return Err(BoardError::SquareOccupiedBoardPutError);
        }

        self.bitboards[piece as usize] |= square;
        self.occupied |= square;
        proof { lemma_put_wf(*old(self), *self, square.0, piece as int); }

        Ok(())
    }
}

pub proof fn lemma_put_wf(o: PieceSet, n: PieceSet, s: u64, p: int)
    requires o.wf(), 0 <= p < 6, o.occupied.0 & s == 0,
        n.occupied.0 == o.occupied.0 | s,
        n.bitboards[p].0 == o.bitboards[p].0 | s,
        forall|q: int| 0 <= q < 6 && q != p ==> n.bitboards[q] == o.bitboards[q],
    ensures n.wf(),
{
    let o0 = o.bitboards[0].0; let o1 = o.bitboards[1].0; let o2 = o.bitboards[2].0;
    let o3 = o.bitboards[3].0; let o4 = o.bitboards[4].0; let o5 = o.bitboards[5].0;
    assert(o0 & o1 == 0 && o0 & o2 == 0 && o0 & o3 == 0 && o0 & o4 == 0 && o0 & o5 == 0
        && o1 & o2 == 0 && o1 & o3 == 0 && o1 & o4 == 0 && o1 & o5 == 0 && o2 & o3 == 0 && o2 & o4 == 0 && o2 & o5 == 0
        && o3 & o4 == 0 && o3 & o5 == 0 && o4 & o5 == 0);
    let oc = o.occupied.0;
    assert(oc == o0|o1|o2|o3|o4|o5);
    assert((o0|o1|o2|o3|o4|o5) & s == 0 ==>
        (o0|s) & o1 == 0 && (o0|s) & o2 == 0 && (o0|s) & o3 == 0 && (o0|s) & o4 == 0 && (o0|s) & o5 == 0
        && (o1|s) & o0 == 0 && (o1|s) & o2 == 0 && (o1|s) & o3 == 0 && (o1|s) & o4 == 0 && (o1|s) & o5 == 0
        && (o2|s) & o0 == 0 && (o2|s) & o1 == 0 && (o2|s) & o3 == 0 && (o2|s) & o4 == 0 && (o2|s) & o5 == 0
        && (o3|s) & o0 == 0 && (o3|s) & o1 == 0 && (o3|s) & o2 == 0 && (o3|s) & o4 == 0 && (o3|s) & o5 == 0
        && (o4|s) & o0 == 0 && (o4|s) & o1 == 0 && (o4|s) & o2 == 0 && (o4|s) & o3 == 0 && (o4|s) & o5 == 0
        && (o5|s) & o0 == 0 && (o5|s) & o1 == 0 && (o5|s) & o2 == 0 && (o5|s) & o3 == 0 && (o5|s) & o4 == 0
    ) by(bit_vector)
      requires o0 & o1 == 0 && o0 & o2 == 0 && o0 & o3 == 0 && o0 & o4 == 0 && o0 & o5 == 0
        && o1 & o2 == 0 && o1 & o3 == 0 && o1 & o4 == 0 && o1 & o5 == 0 && o2 & o3 == 0 && o2 & o4 == 0 && o2 & o5 == 0
        && o3 & o4 == 0 && o3 & o5 == 0 && o4 & o5 == 0;
    assert((o0|s)|o1|o2|o3|o4|o5 == (o0|o1|o2|o3|o4|o5)|s && o0|(o1|s)|o2|o3|o4|o5 == (o0|o1|o2|o3|o4|o5)|s
        && o0|o1|(o2|s)|o3|o4|o5 == (o0|o1|o2|o3|o4|o5)|s && o0|o1|o2|(o3|s)|o4|o5 == (o0|o1|o2|o3|o4|o5)|s
        && o0|o1|o2|o3|(o4|s)|o5 == (o0|o1|o2|o3|o4|o5)|s && o0|o1|o2|o3|o4|(o5|s) == (o0|o1|o2|o3|o4|o5)|s) by(bit_vector);
    assert(forall|a: u64, b: u64| #![auto] a & b == b & a) by(bit_vector);
}

} // verus!
fn main() {}
