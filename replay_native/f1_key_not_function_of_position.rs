// Native replay of finding F1 (property C05, refuted obligation
// unit_board/Board::push_en_passant_target#postcondition@old(self).hash_ok() ==> final(self).hash_ok()).
// Two histories reach the same observable position (placement, castling rights, en-passant
// target all equal) but the exposed 64-bit key differs, because push_en_passant_target never
// retires the key of the previous target.
use chess::board::Board;
use chess::chess_move::chess_move::ChessMove;
use chess::chess_move::standard::StandardChessMove;
use common::bitboard::bitboard::Bitboard;
use common::bitboard::square::*;

fn mv(f: Bitboard, t: Bitboard) -> ChessMove {
    ChessMove::Standard(StandardChessMove::new(f, t, None))
}

#[test]
fn key_is_a_function_of_the_position() {
    // X: 1.e4 e6          Y: 1.e3 e6 2.e4
    let mut x = Board::starting_position();
    for m in [mv(E2, E4), mv(E7, E6)] {
        m.apply(&mut x).unwrap();
    }
    let mut y = Board::starting_position();
    for m in [mv(E2, E3), mv(E7, E6), mv(E3, E4)] {
        m.apply(&mut y).unwrap();
    }
    for i in 0..64 {
        assert_eq!(x.get(Bitboard(1 << i)), y.get(Bitboard(1 << i)), "placement differs on square {}", i);
    }
    assert_eq!(x.peek_castle_rights(), y.peek_castle_rights());
    assert_eq!(x.peek_en_passant_target(), y.peek_en_passant_target());
    assert!(x.peek_en_passant_target().is_empty());
    assert_eq!(
        x.current_position_hash(),
        y.current_position_hash(),
        "same placement, rights and en-passant target, different key"
    );
}

#[test]
fn different_en_passant_possibility_gives_different_key() {
    // 1.a4 h6 2.a5 b5 (ep target b6) versus 1.a4 b5 2.a5 h6 (no ep target): the property text's own example
    let mut b1 = Board::starting_position();
    for m in [mv(A2, A4), mv(H7, H6), mv(A4, A5), mv(B7, B5)] {
        m.apply(&mut b1).unwrap();
    }
    let mut b2 = Board::starting_position();
    for m in [mv(A2, A4), mv(B7, B5), mv(A4, A5), mv(H7, H6)] {
        m.apply(&mut b2).unwrap();
    }
    assert_ne!(b1.peek_en_passant_target(), b2.peek_en_passant_target());
    assert_ne!(b1.current_position_hash(), b2.current_position_hash(), "boards differing in the ep target share a key");
}
