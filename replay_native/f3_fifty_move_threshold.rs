// Native replay of finding F3 (property C16; refuted obligation
// unit_evaluate/game_ending#postcondition@game_ending_post(*old(board), r):
//   r == Some(Draw)  <==>  half-move clock >= 100 || a position occurred three times).
// The fifty-move rule needs fifty moves BY EACH SIDE = 100 plies; the code drew at 50 plies.
use chess::board::color::Color;
use chess::board::piece::Piece;
use chess::board::Board;
use chess::evaluate::{game_ending, GameEnding};
use chess::move_generator::MoveGenerator;
use common::bitboard::square::*;

fn position(halfmove_clock: u8) -> Board {
    let mut b = Board::new();
    b.put(E1, Piece::King, Color::White).unwrap();
    b.put(A1, Piece::Rook, Color::White).unwrap();
    b.put(E8, Piece::King, Color::Black).unwrap();
    b.put(H8, Piece::Rook, Color::Black).unwrap();
    b.lose_castle_rights(0b1111);
    b.push_halfmove_clock(halfmove_clock);
    b
}

#[test]
fn no_move_count_draw_before_100_plies() {
    for clock in [49u8, 50, 75, 99] {
        let mut b = position(clock);
        let ending = game_ending(&mut b, &mut MoveGenerator::new(), Color::White);
        assert!(ending.is_none(), "half-move clock {}: reported {:?}, but fifty moves by each side = 100 plies", clock, ending);
    }
}

#[test]
fn move_count_draw_at_100_plies() {
    for clock in [100u8, 101, 150] {
        let mut b = position(clock);
        let ending = game_ending(&mut b, &mut MoveGenerator::new(), Color::White);
        assert!(matches!(ending, Some(GameEnding::Draw)), "half-move clock {}: reported {:?}", clock, ending);
    }
}
