// REPLAY of finding F11 (C14, notation strings; bounded twin): fails on the tree before c779198 with
//   the legal moves b1d2 and f3d2 share the label `Nd2`
// (copy as tests/<name>.rs of a scratch copy of the crate; public API only)
use chess::game::game::Game;

#[test]
fn every_listed_label_names_exactly_one_move_and_plays_it() {
    let mut game = Game::new(1);
    for label in ["d3", "a6", "Nf3", "a5"] {
        game.apply_chess_move_from_raw_algebraic_notation(label.to_string()).unwrap();
        game.board_mut().toggle_turn();
    }
    let listed = game.enumerated_candidate_moves();
    for i in 0..listed.len() { for j in 0..i {
        assert!(listed[i].1 != listed[j].1, "the legal moves {} and {} share the label `{}`", listed[j].0.to_uci(), listed[i].0.to_uci(), listed[i].1);
    } }
    let (m, label) = listed.iter().find(|(m, _)| m.to_uci() == "f3d2").expect("f3d2 is legal").clone();
    let played = game.apply_chess_move_from_raw_algebraic_notation(label.clone()).unwrap();
    assert!(played.to_uci() == m.to_uci(), "`{}` played {} instead of {}", label, played.to_uci(), m.to_uci());
}
