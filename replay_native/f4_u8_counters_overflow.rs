// Native replay of finding F4 (property C16; refuted obligations
// unit_moves/MoveInfo::increment_fullmove_clock#overflow@self.fullmove_clock += 1 and
// unit_moves/MoveInfo::increment_halfmove_clock#overflow@old_clock + 1).
// Both counters are u8 and are incremented once per ply without any guard: a game that reaches
// ply 255 aborts with "attempt to add with overflow" (debug) or wraps (release).
use chess::board::color::Color;
use chess::board::piece::Piece;
use chess::board::Board;
use chess::chess_move::chess_move::ChessMove;
use chess::chess_move::standard::StandardChessMove;
use common::bitboard::bitboard::Bitboard;
use common::bitboard::square::*;

fn mv(f: Bitboard, t: Bitboard) -> ChessMove {
    ChessMove::Standard(StandardChessMove::new(f, t, None))
}

fn kings_only() -> Board {
    let mut b = Board::new();
    b.put(A1, Piece::King, Color::White).unwrap();
    b.put(H8, Piece::King, Color::Black).unwrap();
    b.lose_castle_rights(0b1111);
    b
}

#[test]
fn move_counter_survives_300_plies() {
    let mut b = kings_only();
    let start = b.fullmove_clock() as u32;
    let r = std::panic::catch_unwind(std::panic::AssertUnwindSafe(|| {
        for i in 0..300u32 {
            let (f, t) = match i % 4 { 0 => (A1, A2), 1 => (H8, H7), 2 => (A2, A1), _ => (H7, H8) };
            mv(f, t).apply(&mut b).unwrap();
        }
    }));
    assert!(r.is_ok(), "apply aborted before ply 300 (u8 counter overflow)");
    assert_eq!(b.fullmove_clock() as u32, start + 300, "move counter wrapped");
}
