// REPLAY of finding F10 (C15, second sentence): fails on the tree before 19aa9e6 with
//   book line "Caro-Kann Classical": move 8 (f8f5) is not legal in the position reached
// (same text as bounded_native/c15_book_lines.rs, the check that found it; copy next to common.rs as tests/<name>.rs)
// EXHAUSTIVE evaluation of build-time data for C15's second sentence (not a contract proof; complete for the
// opening book of THIS build): every path of the compiled book, and every line of opening_lines.txt, is a
// legal sequence of moves from the standard starting position (legality = the generator proved for C01).
include!("common.rs");
use chess::book::{Book, BookMove};
use common::bitboard::square::square_string_to_bitboard;

fn play(mg: &mut MoveGenerator, b: &mut Board, from: Bitboard, to: Bitboard) -> Option<ChessMove> {
    let turn = b.turn();
    let m = mg.generate_moves(b, turn).iter().find(|m| m.from_square() == from && m.to_square() == to).cloned()?;
    m.apply(b).unwrap();
    b.toggle_turn();
    Some(m)
}

fn walk(book: &Book, mg: &mut MoveGenerator, b: &mut Board, line: &mut Vec<BookMove>, shown: &mut Vec<String>, nodes: &mut usize, bad: &mut Vec<String>) {
    for (bm, _name) in book.get_next_moves(line.clone()) {
        *nodes += 1;
        let m = play(mg, b, bm.from_square(), bm.to_square());
        if m.is_none() {
            bad.push(format!("after [{}] the compiled opening book suggests the unplayable move from {:#x} to {:#x}", shown.join(" "), bm.from_square().0, bm.to_square().0));
            continue;
        }
        let m = m.unwrap();
        line.push(bm); shown.push(m.to_uci());
        walk(book, mg, b, line, shown, nodes, bad);
        line.pop(); shown.pop();
        b.toggle_turn();
        m.undo(b).unwrap();
    }
}

#[test]
fn every_path_of_the_compiled_book_is_a_legal_sequence_from_the_starting_position() {
    let book = Book::default();
    let mut b = Board::starting_position();
    let before = snapshot(&b);
    let mut nodes = 0usize;
    let mut bad = vec![];
    walk(&book, &mut MoveGenerator::new(), &mut b, &mut vec![], &mut vec![], &mut nodes, &mut bad);
    // (an empty book satisfies the sentence vacuously; the evidence reports the number of lines and nodes)
    assert!(bad.is_empty(), "{} unplayable book suggestion(s): {}", bad.len(), bad.join("; "));
    assert!(snapshot(&b) == before);
    println!("book nodes walked: {}", nodes);
}

#[test]
fn every_line_of_the_book_source_is_legal_and_is_in_the_compiled_book() {
    let text = include_str!("../opening_lines.txt");
    let book = Book::default();
    let mut lines = 0usize;
    let mut bad: Vec<String> = vec![];
    'lines: for l in text.lines() {
        let parts: Vec<&str> = l.split(": ").collect();
        // (a line of any other shape - empty, a comment - is dropped by the build script as well)
        if parts.len() != 2 { continue; }
        lines += 1;
        let mut b = Board::starting_position();
        let mut mg = MoveGenerator::new();
        let mut key = vec![];
        for (i, raw) in parts[1].split(' ').enumerate() {
            assert!(raw.len() >= 4 && raw.is_char_boundary(2) && raw.is_char_boundary(4), "book line {:?}: move {} ({:?}) is not a coordinate pair", parts[0], i + 1, raw);
            let (from, to) = (square_string_to_bitboard(&raw[0..2]), square_string_to_bitboard(&raw[2..4]));
            if play(&mut mg, &mut b, from, to).is_none() {
                bad.push(format!("book line {:?}: move {} ({}) is not legal in the position reached", parts[0], i + 1, raw));
                continue 'lines;
            }
            key.push(BookMove::new(from, to));
        }
        if book.get_line(key).is_none() { bad.push(format!("book line {:?} is missing from the compiled book", parts[0])); }
    }
    assert!(bad.is_empty(), "{} bad book line(s): {}", bad.len(), bad.join("; "));
    println!("book source lines checked: {}", lines);
}
