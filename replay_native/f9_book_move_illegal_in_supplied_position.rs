// Native replay of finding F9 (property C15, first sentence; refuted obligation
//   unit_game/Game::select_waterfall_book_then_alpha_beta_best_move#postcondition
//   "has_legal_move ==> r is Ok && legal(..)" at the exit `None => return Err(GameError::InvalidMove)`).
// The opening book is keyed by the game's move HISTORY only.  A game begun from a supplied position has an
// empty history, which matches the book's root, so the book suggests an opening move of the standard
// position (e2e4, d2d4, ...).  When that move is not legal on the supplied board the engine answered
// Err(InvalidMove) although the side to move has legal moves - and every retry asks the book again.
use chess::board::color::Color;
use chess::board::piece::Piece;
use chess::board::Board;
use chess::game::game::Game;
use chess::move_generator::MoveGenerator;
use common::bitboard::square::*;

#[test]
fn engine_move_in_a_supplied_position_is_a_legal_move_not_an_error() {
    // king and rook endgame: no book opening move is legal here
    let mut b = Board::new();
    b.put(A1, Piece::King, Color::White).unwrap();
    b.put(H1, Piece::Rook, Color::White).unwrap();
    b.put(E8, Piece::King, Color::Black).unwrap();
    b.lose_castle_rights(0b1111);
    b.set_turn(Color::White);
    let legal = MoveGenerator::new().generate_moves(&mut b.clone(), Color::White);
    assert!(!legal.is_empty());
    for attempt in 0..8 {
        let mut game = Game::from_board(b.clone(), 2);
        match game.select_waterfall_book_then_alpha_beta_best_move() {
            Ok(m) => assert!(
                legal.iter().any(|l| l.from_square() == m.from_square() && l.to_square() == m.to_square()),
                "attempt {}: engine chose {} which is not a legal move", attempt, m),
            Err(e) => panic!("attempt {}: the side to move has {} legal moves but the engine answered Err({})", attempt, legal.len(), e),
        }
    }
}
