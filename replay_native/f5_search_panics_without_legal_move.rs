// Native replay of finding F5 (property C07; refuted obligations
//   unit_search/alpha_beta_search#precondition@Option::unwrap   (scored_moves.pop().unwrap())
//   unit_search/alpha_beta_search#postcondition "no legal move ==> Err(NoAvailableMoves)").
// In a position where the side to move has no legal move (checkmate or stalemate) the search must
// REPORT that no move is available (the error variant SearchError::NoAvailableMoves exists for it);
// the code popped from the empty list of scored moves and panicked.
use chess::alpha_beta_searcher::{alpha_beta_search, SearchContext, SearchError};
use chess::board::color::Color;
use chess::board::piece::Piece;
use chess::board::Board;
use chess::move_generator::MoveGenerator;
use common::bitboard::square::*;

fn run(mut b: Board, depth: u8) -> Result<(), String> {
    let mut ctx = SearchContext::new(depth);
    let mut mg = MoveGenerator::new();
    let res = std::panic::catch_unwind(std::panic::AssertUnwindSafe(|| alpha_beta_search(&mut ctx, &mut b, &mut mg)));
    match res {
        Err(_) => Err("alpha_beta_search panicked".to_string()),
        Ok(Err(SearchError::NoAvailableMoves)) => Ok(()),
        Ok(other) => Err(format!("expected Err(NoAvailableMoves), got {:?}", other.map(|m| m.to_string()))),
    }
}

#[test]
fn checkmated_side_to_move_is_reported_not_panicked() {
    // back-rank mate: black Kg8 behind its pawns, white rook on e8
    let mut b = Board::new();
    b.put(G1, Piece::King, Color::White).unwrap();
    b.put(E8, Piece::Rook, Color::White).unwrap();
    b.put(G8, Piece::King, Color::Black).unwrap();
    b.put(F7, Piece::Pawn, Color::Black).unwrap();
    b.put(G7, Piece::Pawn, Color::Black).unwrap();
    b.put(H7, Piece::Pawn, Color::Black).unwrap();
    b.lose_castle_rights(0b1111);
    b.set_turn(Color::Black);
    for depth in [1u8, 2, 3] {
        run(b.clone(), depth).unwrap_or_else(|e| panic!("checkmate, depth {}: {}", depth, e));
    }
}

#[test]
fn stalemated_side_to_move_is_reported_not_panicked() {
    // black Ka8, white Qb6 + Kc6... classic stalemate: Ka8, white Kc7? use Ka8 / Qb6 / Kc8 is illegal; take Kh8, Qg6, Kf7
    let mut b = Board::new();
    b.put(F7, Piece::King, Color::White).unwrap();
    b.put(G6, Piece::Queen, Color::White).unwrap();
    b.put(H8, Piece::King, Color::Black).unwrap();
    b.lose_castle_rights(0b1111);
    b.set_turn(Color::Black);
    for depth in [1u8, 2] {
        run(b.clone(), depth).unwrap_or_else(|e| panic!("stalemate, depth {}: {}", depth, e));
    }
}
