// Native replay of finding F6 (property C17; refuted obligation
//   unit_game/lemma_count_is_recurrences#assertion@h2[i].turn == p.turn:
//   "the reported count equals the number of times the CURRENT POSITION - same placement, same side
//    to move, same castling rights, same en-passant target - has been registered").
// The repetition map was keyed by the position key alone, which (C05) is a function of placement,
// rights and en-passant target only: the same placement with the OTHER side to move (triangulation)
// was counted as a recurrence.
use chess::board::color::Color;
use chess::board::piece::Piece;
use chess::board::Board;
use chess::chess_move::chess_move::ChessMove;
use chess::chess_move::standard::StandardChessMove;
use common::bitboard::bitboard::Bitboard;
use common::bitboard::square::*;

fn mv(f: Bitboard, t: Bitboard) -> ChessMove {
    ChessMove::Standard(StandardChessMove::new(f, t, None))
}

fn kings() -> Board {
    let mut b = Board::new();
    b.put(E1, Piece::King, Color::White).unwrap();
    b.put(E8, Piece::King, Color::Black).unwrap();
    b.lose_castle_rights(0b1111);
    b.set_turn(Color::White);
    b
}

/// play a move and register the position that arises (with the other side to move)
fn play(b: &mut Board, f: Bitboard, t: Bitboard) -> u8 {
    mv(f, t).apply(b).unwrap();
    b.toggle_turn();
    b.count_current_position()
}

#[test]
fn triangulation_is_not_a_recurrence() {
    let mut b = kings();
    assert_eq!(b.count_current_position(), 1, "start position, White to move: first occurrence");
    // White triangulates (e1-d1-d2-e1), Black shuffles (e8-d8-e8): after White's third move the
    // PLACEMENT is the start placement again, but it is BLACK's turn
    assert_eq!(play(&mut b, E1, D1), 1);
    assert_eq!(play(&mut b, E8, D8), 1);
    assert_eq!(play(&mut b, D1, D2), 1);
    assert_eq!(play(&mut b, D8, E8), 1);
    let n = play(&mut b, D2, E1);
    assert_eq!(b.turn(), Color::Black);
    assert_eq!(n, 1, "Ke1/Ke8 with BLACK to move has occurred once; reported {} (the White-to-move start position was counted as the same position)", n);
    // a true recurrence is still counted: four more plies bring back Ke1/Ke8 with Black to move
    assert_eq!(play(&mut b, E8, D8), 1, "Ke1/Kd8, White to move: first occurrence");
    assert_eq!(play(&mut b, E1, D1), 1, "Kd1/Kd8, Black to move: first occurrence");
    assert_eq!(play(&mut b, D8, E8), 1, "Kd1/Ke8, White to move: first occurrence (it occurred before with Black to move)");
    assert_eq!(play(&mut b, D1, E1), 2, "Ke1/Ke8, Black to move: second occurrence");
}

#[test]
fn unregistering_is_the_inverse_per_side_to_move() {
    let mut b = kings();
    assert_eq!(b.count_current_position(), 1);
    b.set_turn(Color::Black);
    assert_eq!(b.count_current_position(), 1, "same placement, Black to move: a different position");
    assert_eq!(b.uncount_current_position(), 0);
    b.set_turn(Color::White);
    assert_eq!(b.count_current_position(), 2, "White-to-move position registered for the second time");
}
