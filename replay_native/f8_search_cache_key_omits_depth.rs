// Native replay of finding F8 (property C08; refuted obligation
//   unit_search/alpha_beta_minimax#precondition@cache_inv(search_node, score)  (at every set_cache call):
//   a cache entry must be valid for EVERY position / remaining depth / side to move its key does not
//   determine).
// The shared result cache was keyed by (position hash, alpha, beta) only.  An entry written for a position
// at one remaining depth (or with one side to move) was read back for the same hash at another remaining
// depth, so the reported score differed from exact fixed-depth minimax.
use chess::alpha_beta_searcher::{alpha_beta_search, SearchContext};
use chess::board::color::Color;
use chess::board::Board;
use chess::evaluate;
use chess::move_generator::MoveGenerator;

/// exact, unpruned, uncached fixed-depth minimax under the engine's own leaf evaluation
fn minimax(board: &mut Board, mg: &mut MoveGenerator, depth: u8) -> i16 {
    let turn = board.turn();
    if depth == 0 {
        return evaluate::score(board, mg, turn, depth);
    }
    let candidates = mg.generate_moves(board, turn);
    if candidates.is_empty() {
        return evaluate::score(board, mg, turn, depth);
    }
    let mut best: Option<i16> = None;
    for m in candidates.iter() {
        m.apply(board).unwrap();
        board.toggle_turn();
        let v = minimax(board, mg, depth - 1);
        m.undo(board).unwrap();
        board.toggle_turn();
        best = Some(match best {
            None => v,
            Some(b) => if turn == Color::White { b.max(v) } else { b.min(v) },
        });
    }
    best.unwrap()
}

/// deterministic pseudo-random opening of `plies` plies
fn opening(game: u64, plies: usize) -> Board {
    let mut mg = MoveGenerator::new();
    let mut b = Board::starting_position();
    let mut s = 0x9E3779B97F4A7C15u64.wrapping_mul(game + 1);
    for _ in 0..plies {
        let turn = b.turn();
        let moves = mg.generate_moves(&mut b, turn);
        if moves.is_empty() { break; }
        s = s.wrapping_mul(6364136223846793005).wrapping_add(1442695040888963407);
        let m = moves[(s >> 33) as usize % moves.len()].clone();
        m.apply(&mut b).unwrap();
        b.toggle_turn();
    }
    b
}

/// one context reused across the successive searches of a game, as Game does
#[test]
fn reported_score_is_exact_minimax_with_a_reused_context() {
    let mut mismatches = Vec::new();
    let mut n = 0;
    for game in 0..8u64 {
        let mut b = opening(game, 8);
        let mut ctx = SearchContext::new(3);
        for ply in 0..10 {
            let turn = b.turn();
            if MoveGenerator::new().generate_moves(&mut b, turn).is_empty() { break; }
            n += 1;
            let exact = minimax(&mut b, &mut MoveGenerator::new(), 3);
            let best = alpha_beta_search(&mut ctx, &mut b, &mut MoveGenerator::new()).unwrap();
            let reported = ctx.last_score().unwrap();
            if reported != exact {
                mismatches.push(format!("game {} ply {} ({:?} to move, hash {:#x}): search reports {}, exact depth-3 minimax is {}",
                    game, ply, turn, b.current_position_hash(), reported, exact));
            }
            best.apply(&mut b).unwrap();
            b.toggle_turn();
        }
    }
    assert!(mismatches.is_empty(), "{} of {} searches differ:\n{}", mismatches.len(), n, mismatches.join("\n"));
}

/// a brand-new context for every search
#[test]
fn reported_score_is_exact_minimax_with_a_new_context() {
    let mut b = Board::starting_position();
    let mut mismatches = Vec::new();
    for ply in 0..6 {
        let exact = minimax(&mut b, &mut MoveGenerator::new(), 3);
        let mut ctx = SearchContext::new(3);
        let best = alpha_beta_search(&mut ctx, &mut b, &mut MoveGenerator::new()).unwrap();
        let reported = ctx.last_score().unwrap();
        if reported != exact {
            mismatches.push(format!("ply {}: search reports {}, exact depth-3 minimax is {}", ply, reported, exact));
        }
        best.apply(&mut b).unwrap();
        b.toggle_turn();
    }
    assert!(mismatches.is_empty(), "{} of 6 searches differ:\n{}", mismatches.len(), mismatches.join("\n"));
}
