// Native replay of finding F2 (properties C16 and C03, refuted obligation
// unit_moves/StandardChessMove::apply#postcondition@self.apply_post(*old(board), *final(board)),
// conjunct "half-move stack == old.push(if capture || pawn move { 0 } else { old + 1 })").
// The half-move clock must count plies since the last capture OR PAWN MOVE.
use chess::board::Board;
use chess::chess_move::chess_move::ChessMove;
use chess::chess_move::standard::StandardChessMove;
use common::bitboard::bitboard::Bitboard;
use common::bitboard::square::*;

fn mv(f: Bitboard, t: Bitboard) -> ChessMove {
    ChessMove::Standard(StandardChessMove::new(f, t, None))
}

#[test]
fn pawn_move_resets_the_halfmove_clock() {
    let mut b = Board::starting_position();
    mv(G1, F3).apply(&mut b).unwrap();
    assert_eq!(b.halfmove_clock(), 1);
    mv(E7, E5).apply(&mut b).unwrap(); // a pawn move: plies since last capture or pawn move = 0
    assert_eq!(b.halfmove_clock(), 0, "1.Nf3 e5: the pawn move must reset the half-move clock");
    mv(B1, C3).apply(&mut b).unwrap();
    assert_eq!(b.halfmove_clock(), 1);
}
