// Native replay of finding F7 (property C17, second sentence; refuted obligation
//   unit_game/Game::apply_chess_move#postcondition@position_registered(old(self).board, final(self).board)).
// "A game played through the game API in which a position occurs for the third time is reported as
// drawn."  Game::apply_chess_move (and the two make_*_move paths) apply the move and record it in the
// history, but never call Board::count_current_position, so max_seen_position_count() stays at its
// initial value and game_ending can never see a third occurrence.
use chess::board::color::Color;
use chess::board::piece::Piece;
use chess::board::Board;
use chess::evaluate::GameEnding;
use chess::game::game::Game;
use common::bitboard::bitboard::Bitboard;
use common::bitboard::square::*;

fn play(game: &mut Game, f: Bitboard, t: Bitboard) {
    // exactly what the game loops do: execute the move through the Game API, then pass the turn
    game.apply_chess_move_by_from_to_coordinates(f, t).unwrap();
    game.board_mut().toggle_turn();
}

#[test]
fn third_occurrence_is_reported_as_drawn() {
    let mut b = Board::new();
    b.put(A1, Piece::King, Color::White).unwrap();
    b.put(B1, Piece::Rook, Color::White).unwrap();
    b.put(H8, Piece::King, Color::Black).unwrap();
    b.put(G8, Piece::Rook, Color::Black).unwrap();
    b.lose_castle_rights(0b1111);
    b.set_turn(Color::White);
    let mut game = Game::from_board(b, 1);
    assert!(game.check_game_over_for_current_turn().is_none());
    // shuffle the kings: the position after every fourth ply is the starting one, White to move
    for round in 1..=2 {
        play(&mut game, A1, A2);
        play(&mut game, H8, H7);
        play(&mut game, A2, A1);
        play(&mut game, H7, H8);
        let ending = game.check_game_over_for_current_turn();
        if round < 2 {
            assert!(ending.is_none(), "second occurrence is not yet a draw, reported {:?}", ending);
        } else {
            // start position: occurrences 1 (initial), 2 (after ply 4), 3 (after ply 8)
            assert!(matches!(ending, Some(GameEnding::Draw)),
                "the starting position has now occurred three times with White to move, reported {:?} (max_seen_position_count = {})",
                ending, game.board().max_seen_position_count());
        }
    }
}
