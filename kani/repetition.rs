// bounded Kani twin for C17 (NEVER counted as proved): the Board-level registration API driven by a
// SYMBOLIC sequence of N_OPS operations on a two-king board, compared with a reference multiset of
// full positions (placement x side to move) and a reference stack of reported counts.
// Bound: 2 placements (white king e1 / d1) x 2 sides to move, N_OPS = 5 operations out of
// {register, unregister, toggle side to move, move the king}; unregister only of a registered position.
use crate::board::{color::Color, piece::Piece, Board};
use common::bitboard::bitboard::Bitboard;

fn sq(i: u8) -> Bitboard { Bitboard(1u64 << i) }
const N_OPS: usize = 5;

#[kani::proof]
#[kani::unwind(8)]
fn registration_counts_follow_the_reference_model() {
    let mut b = Board::new();
    b.put(sq(4), Piece::King, Color::White).unwrap();
    b.put(sq(60), Piece::King, Color::Black).unwrap();
    b.lose_castle_rights(0b1111);
    // model: counts[placement][turn], stack of reported counts (the board starts with [1])
    let mut counts = [[0u8; 2]; 2];
    let mut stack = [0u8; N_OPS + 1];
    stack[0] = 1;
    let mut top = 0usize;
    let mut placement = 0usize; // 0: Ke1, 1: Kd1
    let mut i = 0;
    while i < N_OPS {
        let op: u8 = kani::any();
        kani::assume(op < 4);
        let t = b.turn() as usize;
        if op == 0 {
            let r = b.count_current_position();
            counts[placement][t] += 1;
            top += 1;
            stack[top] = counts[placement][t];
            assert!(r == counts[placement][t]);
        } else if op == 1 {
            kani::assume(counts[placement][t] >= 1 && top >= 1);
            let r = b.uncount_current_position();
            counts[placement][t] -= 1;
            top -= 1;
            assert!(r == counts[placement][t]);
        } else if op == 2 {
            b.toggle_turn();
        } else {
            let (from, to) = if placement == 0 { (4u8, 3u8) } else { (3u8, 4u8) };
            b.remove(sq(from)).unwrap();
            b.put(sq(to), Piece::King, Color::White).unwrap();
            placement = 1 - placement;
        }
        assert!(b.max_seen_position_count() == stack[top]);
        i += 1;
    }
}
