// bounded Kani twin: StandardChessMove::apply/undo on FIXED boards with a SYMBOLIC move
use crate::board::{color::Color, piece::Piece, Board};
use crate::chess_move::capture::Capture;
use crate::chess_move::standard::StandardChessMove;
use common::bitboard::bitboard::Bitboard;

fn sq(i: u8) -> Bitboard { Bitboard(1u64 << i) }

fn board_a() -> Board {
    // white: Ke1 Ra1 Rh1 Pa2 Pe2 Pg7 Nc3 ; black: Ke8 Ra8 Rh8 Pb7 Ph7 Pd4 Bf6
    let mut b = Board::new();
    b.put(sq(4), Piece::King, Color::White).unwrap();
    b.put(sq(0), Piece::Rook, Color::White).unwrap();
    b.put(sq(7), Piece::Rook, Color::White).unwrap();
    b.put(sq(8), Piece::Pawn, Color::White).unwrap();
    b.put(sq(12), Piece::Pawn, Color::White).unwrap();
    b.put(sq(18), Piece::Knight, Color::White).unwrap();
    b.put(sq(60), Piece::King, Color::Black).unwrap();
    b.put(sq(56), Piece::Rook, Color::Black).unwrap();
    b.put(sq(63), Piece::Rook, Color::Black).unwrap();
    b.put(sq(49), Piece::Pawn, Color::Black).unwrap();
    b.put(sq(55), Piece::Pawn, Color::Black).unwrap();
    b.put(sq(27), Piece::Pawn, Color::Black).unwrap();
    b.put(sq(45), Piece::Bishop, Color::Black).unwrap();
    b
}

fn lost_by_leaving(p: Piece, c: Color, f: u8) -> u8 {
    match (p, c, f) {
        (Piece::King, Color::White, 4) => 10, (Piece::King, Color::Black, 60) => 5,
        (Piece::Rook, Color::White, 0) => 2, (Piece::Rook, Color::White, 7) => 8,
        (Piece::Rook, Color::Black, 56) => 1, (Piece::Rook, Color::Black, 63) => 4,
        _ => 0,
    }
}
fn lost_by_capture(v: Option<(Piece, Color)>, t: u8) -> u8 {
    match (v, t) {
        (Some((Piece::Rook, Color::White)), 0) => 2, (Some((Piece::Rook, Color::White)), 7) => 8,
        (Some((Piece::Rook, Color::Black)), 56) => 1, (Some((Piece::Rook, Color::Black)), 63) => 4,
        _ => 0,
    }
}

#[kani::proof]
#[kani::unwind(70)]
fn std_apply_undo_board_a() {
    let mut b = board_a();
    let f: u8 = kani::any();
    let t: u8 = kani::any();
    kani::assume(f < 64 && t < 64 && f != t);
    let src = b.get(sq(f));
    let dst = b.get(sq(t));
    kani::assume(src.is_some());
    let (p, c) = src.unwrap();
    // shape precondition `ok`
    let captures = match dst {
        None => None,
        Some((q, c2)) => { kani::assume(c2 != c && q != Piece::King); Some(Capture(q)) }
    };
    if p == Piece::Pawn {
        let d = t as i16 - f as i16;
        let ok = match c {
            Color::White => (d == 8 && dst.is_none()) || (d == 16 && f >= 8 && f < 16 && dst.is_none() && b.get(sq(f + 8)).is_none())
                || ((d == 7 && f % 8 != 0 || d == 9 && f % 8 != 7) && dst.is_some()),
            Color::Black => (d == -8 && dst.is_none()) || (d == -16 && f >= 48 && f < 56 && dst.is_none() && b.get(sq(f - 8)).is_none())
                || ((d == -9 && f % 8 != 0 || d == -7 && f % 8 != 7) && dst.is_some()),
        };
        kani::assume(ok && t >= 8 && t < 56);
    }
    let rights0 = b.peek_castle_rights();
    let half0 = b.halfmove_clock();
    let full0 = b.fullmove_clock();
    let hash0 = b.current_position_hash();
    let ep0 = b.peek_en_passant_target();
    let m = StandardChessMove::new(sq(f), sq(t), captures);
    assert!(m.apply(&mut b).is_ok());
    // successor
    let i: u8 = kani::any();
    kani::assume(i < 64);
    let expect = if i == t { Some((p, c)) } else if i == f { None } else { board_a().get(sq(i)) };
    assert!(b.get(sq(i)) == expect);
    assert!(b.peek_castle_rights() == rights0 & !(lost_by_leaving(p, c, f) | lost_by_capture(dst, t)));
    let ep_expect = if p == Piece::Pawn && (t == f + 16 || f == t + 16) { sq((f + t) / 2) } else { Bitboard(0) };
    assert!(b.peek_en_passant_target() == ep_expect);
    assert!(b.halfmove_clock() == if dst.is_some() || p == Piece::Pawn { 0 } else { half0 + 1 });
    assert!(b.fullmove_clock() == full0 + 1);
    assert!(m.undo(&mut b).is_ok());
    assert!(b.get(sq(i)) == board_a().get(sq(i)));
    assert!(b.peek_castle_rights() == rights0 && b.halfmove_clock() == half0 && b.fullmove_clock() == full0);
    assert!(b.current_position_hash() == hash0 && b.peek_en_passant_target() == ep0);
}
