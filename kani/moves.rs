// bounded Kani twin: StandardChessMove::apply/undo on FIXED boards with a SYMBOLIC move
use crate::board::{color::Color, piece::Piece, Board};
use crate::chess_move::capture::Capture;
use crate::chess_move::standard::StandardChessMove;
use common::bitboard::bitboard::Bitboard;

fn sq(i: u8) -> Bitboard { Bitboard(1u64 << i) }

fn board_a() -> Board {
    // white: Ke1 Ra1 Rh1 Pa2 Pe2 Pg7 Nc3 ; black: Ke8 Ra8 Rh8 Pb7 Ph7 Pd4 Bf6
    let mut b = Board::new();
    b.put(sq(4), Piece::King, Color::White).unwrap();
    b.put(sq(0), Piece::Rook, Color::White).unwrap();
    b.put(sq(7), Piece::Rook, Color::White).unwrap();
    b.put(sq(8), Piece::Pawn, Color::White).unwrap();
    b.put(sq(12), Piece::Pawn, Color::White).unwrap();
    b.put(sq(18), Piece::Knight, Color::White).unwrap();
    b.put(sq(60), Piece::King, Color::Black).unwrap();
    b.put(sq(56), Piece::Rook, Color::Black).unwrap();
    b.put(sq(63), Piece::Rook, Color::Black).unwrap();
    b.put(sq(49), Piece::Pawn, Color::Black).unwrap();
    b.put(sq(55), Piece::Pawn, Color::Black).unwrap();
    b.put(sq(27), Piece::Pawn, Color::Black).unwrap();
    b.put(sq(45), Piece::Bishop, Color::Black).unwrap();
    b
}

fn lost_by_leaving(p: Piece, c: Color, f: u8) -> u8 {
    match (p, c, f) {
        (Piece::King, Color::White, 4) => 10, (Piece::King, Color::Black, 60) => 5,
        (Piece::Rook, Color::White, 0) => 2, (Piece::Rook, Color::White, 7) => 8,
        (Piece::Rook, Color::Black, 56) => 1, (Piece::Rook, Color::Black, 63) => 4,
        _ => 0,
    }
}
fn lost_by_capture(v: Option<(Piece, Color)>, t: u8) -> u8 {
    match (v, t) {
        (Some((Piece::Rook, Color::White)), 0) => 2, (Some((Piece::Rook, Color::White)), 7) => 8,
        (Some((Piece::Rook, Color::Black)), 56) => 1, (Some((Piece::Rook, Color::Black)), 63) => 4,
        _ => 0,
    }
}

#[kani::proof]
#[kani::unwind(70)]
fn std_apply_undo_board_a() {
    let mut b = board_a();
    let f: u8 = kani::any();
    let t: u8 = kani::any();
    kani::assume(f < 64 && t < 64 && f != t);
    let src = b.get(sq(f));
    let dst = b.get(sq(t));
    kani::assume(src.is_some());
    let (p, c) = src.unwrap();
    // shape precondition `ok`
    let captures = match dst {
        None => None,
        Some((q, c2)) => { kani::assume(c2 != c && q != Piece::King); Some(Capture(q)) }
    };
    if p == Piece::Pawn {
        let d = t as i16 - f as i16;
        let ok = match c {
            Color::White => (d == 8 && dst.is_none()) || (d == 16 && f >= 8 && f < 16 && dst.is_none() && b.get(sq(f + 8)).is_none())
                || ((d == 7 && f % 8 != 0 || d == 9 && f % 8 != 7) && dst.is_some()),
            Color::Black => (d == -8 && dst.is_none()) || (d == -16 && f >= 48 && f < 56 && dst.is_none() && b.get(sq(f - 8)).is_none())
                || ((d == -9 && f % 8 != 0 || d == -7 && f % 8 != 7) && dst.is_some()),
        };
        kani::assume(ok && t >= 8 && t < 56);
    }
    let rights0 = b.peek_castle_rights();
    let half0 = b.halfmove_clock();
    let full0 = b.fullmove_clock();
    let hash0 = b.current_position_hash();
    let ep0 = b.peek_en_passant_target();
    let m = StandardChessMove::new(sq(f), sq(t), captures);
    assert!(m.apply(&mut b).is_ok());
    // successor
    let i: u8 = kani::any();
    kani::assume(i < 64);
    let expect = if i == t { Some((p, c)) } else if i == f { None } else { board_a().get(sq(i)) };
    assert!(b.get(sq(i)) == expect);
    assert!(b.peek_castle_rights() == rights0 & !(lost_by_leaving(p, c, f) | lost_by_capture(dst, t)));
    let ep_expect = if p == Piece::Pawn && (t == f + 16 || f == t + 16) { sq((f + t) / 2) } else { Bitboard(0) };
    assert!(b.peek_en_passant_target() == ep_expect);
    assert!(b.halfmove_clock() == if dst.is_some() || p == Piece::Pawn { 0 } else { half0 + 1 });
    assert!(b.fullmove_clock() == full0 + 1);
    assert!(m.undo(&mut b).is_ok());
    assert!(b.get(sq(i)) == board_a().get(sq(i)));
    assert!(b.peek_castle_rights() == rights0 && b.halfmove_clock() == half0 && b.fullmove_clock() == full0);
    assert!(b.current_position_hash() == hash0 && b.peek_en_passant_target() == ep0);
}

// ---------------------------------------------------------------------------------------------
// further bounded twins (public API only, so they do not depend on how the crate is structured
// internally): promotions, en passant, castling.  Expected values are transcribed from the rules.
use crate::chess_move::castle::CastleChessMove;
use crate::chess_move::en_passant::EnPassantChessMove;
use crate::chess_move::pawn_promotion::PawnPromotionChessMove;

fn board_p() -> Board {
    // white: Ke1 Rh1 Pb7 Pg7 Pd2 ; black: Ke8 Ra8 Rh8 Nc8 Pa2 Pf2 ; all castling rights as set up by Board::new
    let mut b = Board::new();
    b.put(sq(4), Piece::King, Color::White).unwrap();
    b.put(sq(7), Piece::Rook, Color::White).unwrap();
    b.put(sq(0), Piece::Rook, Color::White).unwrap();
    b.put(sq(49), Piece::Pawn, Color::White).unwrap();
    b.put(sq(54), Piece::Pawn, Color::White).unwrap();
    b.put(sq(11), Piece::Pawn, Color::White).unwrap();
    b.put(sq(60), Piece::King, Color::Black).unwrap();
    b.put(sq(56), Piece::Rook, Color::Black).unwrap();
    b.put(sq(63), Piece::Rook, Color::Black).unwrap();
    b.put(sq(58), Piece::Knight, Color::Black).unwrap();
    b.put(sq(9), Piece::Pawn, Color::Black).unwrap();
    b.put(sq(13), Piece::Pawn, Color::Black).unwrap();
    b.push_halfmove_clock(7);
    b
}

fn promo_piece(k: u8) -> Piece {
    match k { 0 => Piece::Queen, 1 => Piece::Rook, 2 => Piece::Bishop, _ => Piece::Knight }
}

/// every promotion (with and without capture, all four pieces, both colours) available on board_p
#[kani::proof]
#[kani::unwind(70)]
fn promo_apply_undo_board_p() {
    let mut b = board_p();
    let f: u8 = kani::any();
    let t: u8 = kani::any();
    let k: u8 = kani::any();
    kani::assume(f < 64 && t < 64 && k < 4);
    let src = b.get(sq(f));
    let dst = b.get(sq(t));
    kani::assume(src.is_some());
    let (p, c) = src.unwrap();
    kani::assume(p == Piece::Pawn);
    let d = t as i16 - f as i16;
    let geometry = match c {
        Color::White => f >= 48 && f < 56 && ((d == 8 && dst.is_none()) || ((d == 7 && f % 8 != 0 || d == 9 && f % 8 != 7) && dst.is_some())),
        Color::Black => f >= 8 && f < 16 && ((d == -8 && dst.is_none()) || ((d == -9 && f % 8 != 0 || d == -7 && f % 8 != 7) && dst.is_some())),
    };
    kani::assume(geometry);
    let captures = match dst {
        None => None,
        Some((q, c2)) => { kani::assume(c2 != c && q != Piece::King); Some(Capture(q)) }
    };
    let rights0 = b.peek_castle_rights();
    let half0 = b.halfmove_clock();
    let full0 = b.fullmove_clock();
    let hash0 = b.current_position_hash();
    let ep0 = b.peek_en_passant_target();
    let m = PawnPromotionChessMove::new(sq(f), sq(t), captures, promo_piece(k));
    assert!(m.apply(&mut b).is_ok());
    let i: u8 = kani::any();
    kani::assume(i < 64);
    let expect = if i == t { Some((promo_piece(k), c)) } else if i == f { None } else { board_p().get(sq(i)) };
    assert!(b.get(sq(i)) == expect);
    assert!(b.peek_castle_rights() == rights0 & !lost_by_capture(dst, t));
    assert!(b.peek_en_passant_target() == Bitboard(0));
    assert!(b.halfmove_clock() == 0);                 // a promotion is a pawn move
    assert!(b.fullmove_clock() == full0 + 1);
    assert!(m.undo(&mut b).is_ok());
    assert!(b.get(sq(i)) == board_p().get(sq(i)));
    assert!(b.peek_castle_rights() == rights0 && b.halfmove_clock() == half0 && b.fullmove_clock() == full0);
    assert!(b.current_position_hash() == hash0 && b.peek_en_passant_target() == ep0);
}

fn board_e(white_to_capture: bool) -> Board {
    // white: Ke1 Pe5 Pa2 ; black: Ke8 Pd7/Pd5 Pf5 Ph7.   The double step d7-d5 (or a2-a4 for the black capture) is played through the API.
    let mut b = Board::new();
    b.put(sq(4), Piece::King, Color::White).unwrap();
    b.put(sq(60), Piece::King, Color::Black).unwrap();
    b.lose_castle_rights(0b1111);
    if white_to_capture {
        b.put(sq(36), Piece::Pawn, Color::White).unwrap();   // e5
        b.put(sq(51), Piece::Pawn, Color::Black).unwrap();   // d7
        b.put(sq(37), Piece::Pawn, Color::Black).unwrap();   // f5
        StandardChessMove::new(sq(51), sq(35), None).apply(&mut b).unwrap();   // d7-d5: target d6
    } else {
        b.put(sq(25), Piece::Pawn, Color::Black).unwrap();   // b4
        b.put(sq(8), Piece::Pawn, Color::White).unwrap();    // a2
        b.put(sq(26), Piece::Pawn, Color::White).unwrap();   // c4
        StandardChessMove::new(sq(8), sq(24), None).apply(&mut b).unwrap();    // a2-a4: target a3
    }
    b
}

#[kani::proof]
#[kani::unwind(70)]
fn ep_apply_undo() {
    let w: bool = kani::any();
    let mut b = board_e(w);
    let (f, t, v, c) = if w { (36u8, 43u8, 35u8, Color::White) } else { (25u8, 16u8, 24u8, Color::Black) };
    assert!(b.peek_en_passant_target() == sq(t));
    let half0 = b.halfmove_clock();
    let full0 = b.fullmove_clock();
    let hash0 = b.current_position_hash();
    let rights0 = b.peek_castle_rights();
    let m = EnPassantChessMove::new(sq(f), sq(t));
    assert!(m.apply(&mut b).is_ok());
    let i: u8 = kani::any();
    kani::assume(i < 64);
    let expect = if i == t { Some((Piece::Pawn, c)) } else if i == f || i == v { None } else { board_e(w).get(sq(i)) };
    assert!(b.get(sq(i)) == expect);
    assert!(b.peek_en_passant_target() == Bitboard(0) && b.halfmove_clock() == 0 && b.fullmove_clock() == full0 + 1);
    assert!(b.peek_castle_rights() == rights0);
    assert!(m.undo(&mut b).is_ok());
    assert!(b.get(sq(i)) == board_e(w).get(sq(i)));
    assert!(b.peek_en_passant_target() == sq(t) && b.halfmove_clock() == half0 && b.fullmove_clock() == full0);
    assert!(b.current_position_hash() == hash0 && b.peek_castle_rights() == rights0);
}

fn board_c() -> Board {
    // both sides: king and both rooks at home, nothing between; a few bystanders
    let mut b = Board::new();
    b.put(sq(4), Piece::King, Color::White).unwrap();
    b.put(sq(0), Piece::Rook, Color::White).unwrap();
    b.put(sq(7), Piece::Rook, Color::White).unwrap();
    b.put(sq(60), Piece::King, Color::Black).unwrap();
    b.put(sq(56), Piece::Rook, Color::Black).unwrap();
    b.put(sq(63), Piece::Rook, Color::Black).unwrap();
    b.put(sq(12), Piece::Pawn, Color::White).unwrap();
    b.put(sq(52), Piece::Pawn, Color::Black).unwrap();
    b.push_halfmove_clock(3);
    b
}

#[kani::proof]
#[kani::unwind(70)]
fn castle_apply_undo_board_c() {
    let mut b = board_c();
    let white: bool = kani::any();
    let kingside: bool = kani::any();
    let c = if white { Color::White } else { Color::Black };
    let m = if kingside { CastleChessMove::castle_kingside(c) } else { CastleChessMove::castle_queenside(c) };
    let f: u8 = if white { 4 } else { 60 };
    let (t, rf, rt) = if kingside { (f + 2, f + 3, f + 1) } else { (f - 2, f - 4, f - 1) };
    let half0 = b.halfmove_clock();
    let full0 = b.fullmove_clock();
    let hash0 = b.current_position_hash();
    let rights0 = b.peek_castle_rights();
    assert!(m.apply(&mut b).is_ok());
    let i: u8 = kani::any();
    kani::assume(i < 64);
    let expect = if i == t { Some((Piece::King, c)) } else if i == rt { Some((Piece::Rook, c)) }
                 else if i == f || i == rf { None } else { board_c().get(sq(i)) };
    assert!(b.get(sq(i)) == expect);
    assert!(b.peek_castle_rights() == rights0 & !(if white { 10 } else { 5 }));
    assert!(b.peek_en_passant_target() == Bitboard(0) && b.halfmove_clock() == half0 + 1 && b.fullmove_clock() == full0 + 1);
    assert!(m.undo(&mut b).is_ok());
    assert!(b.get(sq(i)) == board_c().get(sq(i)));
    assert!(b.peek_castle_rights() == rights0 && b.halfmove_clock() == half0 && b.fullmove_clock() == full0);
    assert!(b.current_position_hash() == hash0 && b.peek_en_passant_target() == Bitboard(0));
}

// ---------------------------------------------------------------------------------------------
// two plies: C04's "any nesting depth" at depth 2, C16's clock across consecutive moves.
// First ply: one of six fixed moves on board_a (quiet piece move, pawn push, double push, capture,
// king move, rook move); second ply: a fully symbolic standard move by the other side; then both are
// undone in reverse order and every observable is compared after each step.
fn first_ply(k: u8) -> (u8, u8, Option<Capture>) {
    match k {
        0 => (18, 35, None),                               // Nc3-d5 (quiet)
        1 => (12, 20, None),                               // e2-e3
        2 => (8, 24, None),                                // a2-a4 (double step)
        3 => (18, 28, None),                               // Nc3-e4 (quiet)
        4 => (4, 5, None),                                 // Ke1-f1
        _ => (7, 6, None),                                 // Rh1-g1
    }
}

#[kani::proof]
#[kani::unwind(70)]
fn two_ply_apply_undo_board_a() {
    let mut b = board_a();
    b.push_halfmove_clock(5);
    let k: u8 = kani::any();
    kani::assume(k < 6);
    let (f1, t1, c1) = first_ply(k);
    let p1 = b.get(sq(f1)).unwrap().0;
    let half0 = b.halfmove_clock();
    let full0 = b.fullmove_clock();
    let hash0 = b.current_position_hash();
    let rights0 = b.peek_castle_rights();
    let ep0 = b.peek_en_passant_target();
    let m1 = StandardChessMove::new(sq(f1), sq(t1), c1);
    assert!(m1.apply(&mut b).is_ok());
    let half1 = b.halfmove_clock();
    let full1 = b.fullmove_clock();
    let hash1 = b.current_position_hash();
    let rights1 = b.peek_castle_rights();
    let ep1 = b.peek_en_passant_target();
    assert!(half1 == if p1 == Piece::Pawn { 0 } else { half0 + 1 });
    // second ply: symbolic black move
    let f: u8 = kani::any();
    let t: u8 = kani::any();
    kani::assume(f < 64 && t < 64 && f != t);
    let src = b.get(sq(f));
    let dst = b.get(sq(t));
    kani::assume(src.is_some());
    let (p, c) = src.unwrap();
    kani::assume(c == Color::Black);
    let captures = match dst {
        None => None,
        Some((q, c2)) => { kani::assume(c2 != c && q != Piece::King); Some(Capture(q)) }
    };
    if p == Piece::Pawn {
        let d = t as i16 - f as i16;
        let ok = (d == -8 && dst.is_none()) || (d == -16 && f >= 48 && f < 56 && dst.is_none() && b.get(sq(f - 8)).is_none())
            || ((d == -9 && f % 8 != 0 || d == -7 && f % 8 != 7) && dst.is_some());
        kani::assume(ok && t >= 8 && t < 56);
    }
    let m2 = StandardChessMove::new(sq(f), sq(t), captures);
    assert!(m2.apply(&mut b).is_ok());
    assert!(b.halfmove_clock() == if dst.is_some() || p == Piece::Pawn { 0 } else { half1 + 1 });
    assert!(b.fullmove_clock() == full1 + 1);
    // undo the second ply: exactly the state after the first
    assert!(m2.undo(&mut b).is_ok());
    assert!(b.halfmove_clock() == half1 && b.fullmove_clock() == full1 && b.current_position_hash() == hash1);
    assert!(b.peek_castle_rights() == rights1 && b.peek_en_passant_target() == ep1);
    // undo the first ply: exactly the initial state
    assert!(m1.undo(&mut b).is_ok());
    assert!(b.halfmove_clock() == half0 && b.fullmove_clock() == full0 && b.current_position_hash() == hash0);
    assert!(b.peek_castle_rights() == rights0 && b.peek_en_passant_target() == ep0);
    let i: u8 = kani::any();
    kani::assume(i < 64);
    assert!(b.get(sq(i)) == board_a().get(sq(i)));
}

// ---------------------------------------------------------------------------------------------
// C05 (bounded): after two plies (one of six fixed first moves, then a symbolic reply) the key equals
// the key of the same position set up DIRECTLY through put / lose_castle_rights /
// push_en_passant_target on an empty board -- i.e. the key is a function of (placement, rights,
// en-passant target), not of the path.
#[kani::proof]
#[kani::unwind(70)]
fn key_is_function_of_position_two_ply() {
    let mut b = board_a();
    let k: u8 = kani::any();
    kani::assume(k < 6);
    let (f1, t1, c1) = first_ply(k);
    assert!(StandardChessMove::new(sq(f1), sq(t1), c1).apply(&mut b).is_ok());
    let f: u8 = kani::any();
    let t: u8 = kani::any();
    kani::assume(f < 64 && t < 64 && f != t);
    let src = b.get(sq(f));
    let dst = b.get(sq(t));
    kani::assume(src.is_some());
    let (p, c) = src.unwrap();
    kani::assume(c == Color::Black);
    let captures = match dst {
        None => None,
        Some((q, c2)) => { kani::assume(c2 != c && q != Piece::King); Some(Capture(q)) }
    };
    if p == Piece::Pawn {
        let d = t as i16 - f as i16;
        let ok = (d == -8 && dst.is_none()) || (d == -16 && f >= 48 && f < 56 && dst.is_none() && b.get(sq(f - 8)).is_none())
            || ((d == -9 && f % 8 != 0 || d == -7 && f % 8 != 7) && dst.is_some());
        kani::assume(ok && t >= 8 && t < 56);
    }
    assert!(StandardChessMove::new(sq(f), sq(t), captures).apply(&mut b).is_ok());
    // the same position, set up directly
    let mut d = Board::new();
    let mut i: u8 = 0;
    while i < 64 {
        if let Some((pp, cc)) = b.get(sq(i)) {
            d.put(sq(i), pp, cc).unwrap();
        }
        i += 1;
    }
    d.lose_castle_rights(0b1111 & !b.peek_castle_rights());
    d.push_en_passant_target(b.peek_en_passant_target());
    assert!(d.peek_castle_rights() == b.peek_castle_rights());
    assert!(d.current_position_hash() == b.current_position_hash());
}
