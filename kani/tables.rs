// Kani proof harnesses for the closed (input-free) attack tables -- property C11.
//
// Compiled as a CHILD MODULE of src/move_generator/targets.rs of a scratch copy of the repository:
//     #[cfg(kani)] #[path = "/verif/kani/tables.rs"] mod verif_kani_tables;
// so that the table generators are reached through `super::`.  Nothing of the repository is copied here.
//
// The expected values are computed from the Laws of Chess with rank/file INTEGER arithmetic
// (rank = i / 8, file = i % 8; a target exists iff it is on the board) -- the same definitions as
// `knight_attacks_spec` / `king_attacks_spec` in contracts/u4_geometry_spec.vrs -- never with shifts and file masks.
//
// Every harness is a complete proof: symbolic square index, unwinding assertions on (Kani's default),
// loop bound 64 (+1 for the exit test).
use super::{generate_king_targets_table, generate_knight_targets_table};
use common::bitboard::bitboard::Bitboard;
use common::bitboard::square::{to_algebraic, ORDERED_SQUARES};

fn on_board(r: i32, f: i32) -> bool {
    0 <= r && r < 8 && 0 <= f && f < 8
}

/// word with the bit of (r, f) if that square is on the board, else 0
fn bit_rf(r: i32, f: i32) -> u64 {
    if on_board(r, f) {
        1u64 << ((r * 8 + f) as u32)
    } else {
        0
    }
}

fn knight_attacks_spec(i: usize) -> u64 {
    let (r, f) = ((i / 8) as i32, (i % 8) as i32);
    bit_rf(r + 2, f + 1) | bit_rf(r + 1, f + 2) | bit_rf(r - 1, f + 2) | bit_rf(r - 2, f + 1)
        | bit_rf(r + 2, f - 1) | bit_rf(r + 1, f - 2) | bit_rf(r - 1, f - 2) | bit_rf(r - 2, f - 1)
}

fn king_attacks_spec(i: usize) -> u64 {
    let (r, f) = ((i / 8) as i32, (i % 8) as i32);
    bit_rf(r + 1, f + 1) | bit_rf(r + 1, f) | bit_rf(r + 1, f - 1) | bit_rf(r, f + 1)
        | bit_rf(r, f - 1) | bit_rf(r - 1, f + 1) | bit_rf(r - 1, f) | bit_rf(r - 1, f - 1)
}

/// C11 (knight): for every square the table entry is exactly the on-board L-shaped squares (no wrap-around).
#[kani::proof]
#[kani::unwind(65)]
fn knight_table_matches_spec() {
    let i: usize = kani::any();
    kani::assume(i < 64);
    let table = generate_knight_targets_table();
    assert!(table[i].0 == knight_attacks_spec(i));
}

/// C11 (king): for every square the table entry is exactly the on-board adjacent squares (no wrap-around).
#[kani::proof]
#[kani::unwind(65)]
fn king_table_matches_spec() {
    let i: usize = kani::any();
    kani::assume(i < 64);
    let table = generate_king_targets_table();
    assert!(table[i].0 == king_attacks_spec(i));
}

/// Cross-check of `lemma_ordered_squares` (contracts/u4_ordered.vrs, used by make_table's proof): ORDERED_SQUARES lists
/// every square exactly once, file-major (A1, A2, .., A8, B1, ..): entry j is the square with index (j % 8) * 8 + j / 8.
#[kani::proof]
fn ordered_squares_file_major() {
    let j: usize = kani::any();
    kani::assume(j < 64);
    let expected: Bitboard = Bitboard(1u64 << (((j % 8) * 8 + j / 8) as u32));
    assert!(ORDERED_SQUARES[j] == expected);
}

/// By-product (C19): the algebraic name of square i is file letter 'a' + i % 8 followed by rank digit '1' + i / 8.
#[kani::proof]
#[kani::unwind(66)]
fn to_algebraic_matches_rank_file() {
    let i: usize = kani::any();
    kani::assume(i < 64);
    let name = to_algebraic(Bitboard(1u64 << (i as u32))).as_bytes();
    assert!(name.len() == 2);
    assert!(name[0] == b'a' + (i % 8) as u8);
    assert!(name[1] == b'1' + (i / 8) as u8);
}
