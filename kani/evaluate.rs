// Bounded Kani twin for C18's symmetry clause (public API only).  Used as a fallback when the deductive
// check of C18 is undecided, and in the thorough tier.  Bound: kings on e1/e8 plus ONE further man of symbolic
// kind, colour and square; the colour-swapped, 180-degree-rotated board must score exactly the negative.
use crate::board::{color::Color, piece::Piece, Board};
use crate::evaluate::board_material_score;
use common::bitboard::bitboard::Bitboard;

fn sq(i: u8) -> Bitboard { Bitboard(1u64 << i) }
fn piece(k: u8) -> Piece {
    match k { 0 => Piece::Pawn, 1 => Piece::Knight, 2 => Piece::Bishop, 3 => Piece::Rook, _ => Piece::Queen }
}
fn colour(w: bool) -> Color { if w { Color::White } else { Color::Black } }

#[kani::proof]
#[kani::unwind(66)]
fn material_score_is_antisymmetric() {
    // kings on e1 / e8 (mirror image: d8 / d1), ONE further man of symbolic kind, colour and square
    let k1: u8 = kani::any();
    let s1: u8 = kani::any();
    let w1: bool = kani::any();
    kani::assume(k1 < 5 && s1 < 64 && s1 != 4 && s1 != 60);
    kani::assume(!(k1 == 0 && (s1 < 8 || s1 >= 56)));
    let mut b = Board::new();
    b.put(sq(4), Piece::King, Color::White).unwrap();
    b.put(sq(60), Piece::King, Color::Black).unwrap();
    b.put(sq(s1), piece(k1), colour(w1)).unwrap();
    // colour swap + rotation by 180 degrees
    let mut m = Board::new();
    m.put(sq(59), Piece::King, Color::Black).unwrap();
    m.put(sq(3), Piece::King, Color::White).unwrap();
    m.put(sq(63 - s1), piece(k1), colour(!w1)).unwrap();
    let a = board_material_score(&b);
    let c = board_material_score(&m);
    assert!(a == -c);
    assert!(a > -16128 && a < 16128);   // strictly inside every mate score (|WINS| - 255)
}
