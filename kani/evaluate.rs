// Bounded Kani twin for C18's symmetry clause (public API only).  Used as a fallback when the deductive
// check of C18 is undecided, and in the thorough tier.  Bound: two kings plus TWO further men of symbolic
// kind, colour and square; the colour-swapped, 180-degree-rotated board must score exactly the negative.
use crate::board::{color::Color, piece::Piece, Board};
use crate::evaluate::board_material_score;
use common::bitboard::bitboard::Bitboard;

fn sq(i: u8) -> Bitboard { Bitboard(1u64 << i) }
fn piece(k: u8) -> Piece {
    match k { 0 => Piece::Pawn, 1 => Piece::Knight, 2 => Piece::Bishop, 3 => Piece::Rook, _ => Piece::Queen }
}
fn colour(w: bool) -> Color { if w { Color::White } else { Color::Black } }

#[kani::proof]
#[kani::unwind(66)]
fn material_score_is_antisymmetric() {
    let (k1, k2): (u8, u8) = (kani::any(), kani::any());
    let (s1, s2): (u8, u8) = (kani::any(), kani::any());
    let (w1, w2): (bool, bool) = (kani::any(), kani::any());
    let (wk, bk): (u8, u8) = (kani::any(), kani::any());
    kani::assume(k1 < 5 && k2 < 5 && s1 < 64 && s2 < 64 && wk < 64 && bk < 64);
    kani::assume(s1 != s2 && s1 != wk && s1 != bk && s2 != wk && s2 != bk && wk != bk);
    kani::assume(!(k1 == 0 && (s1 < 8 || s1 >= 56)) && !(k2 == 0 && (s2 < 8 || s2 >= 56)));
    let mut b = Board::new();
    b.put(sq(wk), Piece::King, Color::White).unwrap();
    b.put(sq(bk), Piece::King, Color::Black).unwrap();
    b.put(sq(s1), piece(k1), colour(w1)).unwrap();
    b.put(sq(s2), piece(k2), colour(w2)).unwrap();
    // colour swap + rotation by 180 degrees
    let mut m = Board::new();
    m.put(sq(63 - wk), Piece::King, Color::Black).unwrap();
    m.put(sq(63 - bk), Piece::King, Color::White).unwrap();
    m.put(sq(63 - s1), piece(k1), colour(!w1)).unwrap();
    m.put(sq(63 - s2), piece(k2), colour(!w2)).unwrap();
    let a = board_material_score(&b);
    let c = board_material_score(&m);
    assert!(a == -c);
    assert!(a > -16128 && a < 16128);   // strictly inside every mate score (|WINS| - 255)
}
