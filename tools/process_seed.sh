#!/bin/bash
# process one sub-agent seed: save artifacts, run the property's check (with fallback) on a scratch copy of
# /repo + patch, confirm the demo (fails with / passes without; lib suite), print a summary.  Nothing touches /repo.
# usage: tools/process_seed.sh <round> <ID> <worktree> [release]
r=$1; id=$2; wt=$3; rel=$4
cd "$(dirname "$0")/.."
d=seeded/r${r}_${id}; mkdir -p $d
cp $wt/patch.diff $d/ || exit 2
cp $wt/tests/demo_${id}.rs $d/ 2>/dev/null; cp $wt/SEED_REPORT.md $d/ 2>/dev/null
sc=/tmp/sc_r${r}_${id}; rm -rf $sc; rsync -a --exclude target /repo/ $sc/
(cd $sc && git apply $OLDPWD/$d/patch.diff) || { echo "$id: patch does not apply to current /repo"; rm -rf $sc; exit 2; }
VX_REPO=$sc bin/vx check $id > /tmp/p/s${r}_${id}.out 2>&1; rc=$?
echo "== $id check rc=$rc"; grep "^VIOL\|^UNDEC\|^OK\|^NOTE" /tmp/p/s${r}_${id}.out | cut -c1-330
rm -rf $sc work/alt_*
# confirmation in the agent's own worktree
flag=""; [ -n "$rel" ] && flag="--release"
( cd $wt && git checkout -q -- src common precompile 2>/dev/null; git apply patch.diff
  a=$(cargo test $flag --offline --test demo_$id 2>&1 | grep "^test result" | head -1)
  git apply -R patch.diff
  b=$(cargo test $flag --offline --test demo_$id 2>&1 | grep "^test result" | head -1)
  git apply patch.diff
  c=$(cargo test --offline --lib 2>&1 | grep "^test result" | head -1)
  echo "$id | with change: $a | without: $b | lib suite with change: $c" ) | tee /tmp/p/confirm${r}_${id}.txt
