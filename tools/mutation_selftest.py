#!/usr/bin/env python3
"""Mutation self-test of the checks: small source mutations (and a few behaviour-preserving edits)
applied to scratch copies of /repo; each is run through the listed checks with VX_REPO pointing at
the copy.  Expected outcome per mutant: 'violation' (exit 1 + VIOLATION line), 'ok' (benign edit:
exit 0) or 'undecided' (exit 2).  Results go to seeded/selftest.json.  Nothing touches /repo.

usage: tools/mutation_selftest.py [name-substring ...]
"""
import concurrent.futures
import json
import os
import shutil
import subprocess
import sys
import tempfile

VERIF = os.path.dirname(os.path.dirname(os.path.abspath(__file__)))
REPO = '/repo'

# (name, file, old, new, expected, [properties])
M = [
 # ---- board / key (C05)
 ("remove-forgets-occupied", "src/board/piece_set.rs", "        self.occupied ^= square;\n", "", "violation", ["C05", "C12"]),
 ("put-ors-wrong-board", "src/board/piece_set.rs", "self.bitboards[piece as usize] |= square;", "self.bitboards[Piece::Pawn as usize] |= square;", "violation", ["C12"]),
 ("toggle-piece-ignores-colour", "src/board/position_info.rs", "[square_num as usize][color as usize];", "[square_num as usize][0];", "violation", ["C05"]),
 ("lose-rights-no-key-update", "src/board/mod.rs", "        self.position_info\n            .update_zobrist_hash_toggle_castling_rights(new_rights);\n        new_rights\n    }\n\n    pub fn pop_castle_rights", "        new_rights\n    }\n\n    pub fn pop_castle_rights", "violation", ["C05"]),
 ("benign-remove-uses-andnot", "src/board/piece_set.rs", "        self.bitboards[removed_piece as usize] ^= square;\n        self.occupied ^= square;", "        self.bitboards[removed_piece as usize] &= !square;\n        self.occupied &= !square;", "ok", ["C05"]),
 ("benign-lose-rights-andnot", "src/board/move_info.rs", "let new_rights = old_rights ^ (old_rights & lost_rights);", "let new_rights = old_rights & !lost_rights;", "ok", ["C05"]),
 ("benign-is-occupied-overlaps", "src/board/mod.rs", "        !(self.occupied() & square).is_empty()", "        self.occupied().overlaps(square)", "ok", ["C05"]),
 ("benign-put-uses-xor", "src/board/piece_set.rs", "        self.bitboards[piece as usize] |= square;\n        self.occupied |= square;", "        self.bitboards[piece as usize] ^= square;\n        self.occupied ^= square;", "ok", ["C05"]),
 # ---- renamed locals / parameters (behaviour-preserving; R18 restores the recorded names)
 ("benign-rename-local-pawns", "src/move_generator/targets.rs", "re:\\bpawns\\b", "own_pawns", "ok", ["C01"]),
 ("benign-rename-loop-var", "src/move_generator/targets.rs", "        for x in 0..64 {\n            let square = Bitboard(1 << x);", "        for idx in 0..64 {\n            let square = Bitboard(1 << idx);", "ok", ["C06"]),
 ("benign-rename-local-in-apply", "src/chess_move/standard.rs", "re:\\bcaptured_piece_and_color\\b", "taken", "ok", ["C03"]),
 ("benign-rename-param", "src/board/piece_set.rs", "re:\\bsquare\\b", "sq_word", "ok", ["C05"]),
 # ---- extracted helpers (behaviour-preserving; R19 inlines un-contracted private helpers)
 ("benign-extract-helper-clock", "src/chess_move/standard.rs", [
     ("        if captured_piece_and_color.is_some() || piece_to_move == Piece::Pawn {\n            board.reset_halfmove_clock();\n        } else {\n            board.increment_halfmove_clock();\n        }\n",
      "        update_halfmove_clock(board, captured_piece_and_color.is_some() || piece_to_move == Piece::Pawn);\n"),
     ("/// Determines if a move is an en passant move.", "fn update_halfmove_clock(board: &mut Board, reset: bool) {\n    if reset {\n        board.reset_halfmove_clock();\n    } else {\n        board.increment_halfmove_clock();\n    }\n}\n\n/// Determines if a move is an en passant move."),
   ], None, "ok", ["C03", "C16"]),
 ("benign-extract-helper-key", "src/move_generator/mod.rs", [
     ("        let key = (board.current_position_hash(), player as u8);\n", "        let key = cache_key(board, player);\n"),
     ("fn count_positions_inner(", "fn cache_key(board: &Board, player: Color) -> (u64, u8) {\n    (board.current_position_hash(), player as u8)\n}\n\nfn count_positions_inner("),
   ], None, "ok", ["C02"]),
 ('benign-extract-helper-guard-with-statements', "src/chess_move/standard.rs", [
     ('        let en_passant_target = get_en_passant_target_square(\n            piece_to_move,\n            color_of_piece_to_move,\n            *from_square,\n            *to_square,\n        );\n        let lost_castle_rights =\n            get_lost_castle_rights_if_rook_or_king_moved(\n                piece_to_move,\n                color_of_piece_to_move,\n                *from_square,\n            ) | get_lost_castle_rights_if_rook_taken(captured_piece_and_color, *to_square);\n',
      '        let (en_passant_target, lost_castle_rights) = get_move_info_updates(piece_to_move, color_of_piece_to_move, *from_square, *to_square, captured_piece_and_color);\n'),
     ("/// Determines if a move is an en passant move.", 'fn get_move_info_updates(piece_to_move: Piece, color: Color, from_square: Bitboard, to_square: Bitboard, captured_piece: Option<(Piece, Color)>) -> (Bitboard, u8) {\n    if piece_to_move == Piece::Pawn {\n        let en_passant_target = get_en_passant_target_square(piece_to_move, color, from_square, to_square);\n        let lost = get_lost_castle_rights_if_rook_taken(captured_piece, to_square);\n        return (en_passant_target, lost);\n    }\n\n    let lost_castle_rights = get_lost_castle_rights_if_rook_or_king_moved(piece_to_move, color, from_square)\n        | get_lost_castle_rights_if_rook_taken(captured_piece, to_square);\n\n    (get_en_passant_target_square(piece_to_move, color, from_square, to_square), lost_castle_rights)\n}\n\n/// Determines if a move is an en passant move.'),
   ], None, 'ok', ['C03', 'C12']),
 ('extract-helper-guard-forgets-rook-capture', "src/chess_move/standard.rs", [
     ('        let en_passant_target = get_en_passant_target_square(\n            piece_to_move,\n            color_of_piece_to_move,\n            *from_square,\n            *to_square,\n        );\n        let lost_castle_rights =\n            get_lost_castle_rights_if_rook_or_king_moved(\n                piece_to_move,\n                color_of_piece_to_move,\n                *from_square,\n            ) | get_lost_castle_rights_if_rook_taken(captured_piece_and_color, *to_square);\n',
      '        let (en_passant_target, lost_castle_rights) = get_move_info_updates(piece_to_move, color_of_piece_to_move, *from_square, *to_square, captured_piece_and_color);\n'),
     ("/// Determines if a move is an en passant move.", 'fn get_move_info_updates(piece_to_move: Piece, color: Color, from_square: Bitboard, to_square: Bitboard, captured_piece: Option<(Piece, Color)>) -> (Bitboard, u8) {\n    if piece_to_move == Piece::Pawn {\n        let en_passant_target = get_en_passant_target_square(piece_to_move, color, from_square, to_square);\n        let lost = 0;\n        return (en_passant_target, lost);\n    }\n\n    let lost_castle_rights = get_lost_castle_rights_if_rook_or_king_moved(piece_to_move, color, from_square)\n        | get_lost_castle_rights_if_rook_taken(captured_piece, to_square);\n\n    (get_en_passant_target_square(piece_to_move, color, from_square, to_square), lost_castle_rights)\n}\n\n/// Determines if a move is an en passant move.'),
   ], None, 'violation', ['C12']),
 ("extract-helper-wrong-clock", "src/chess_move/standard.rs", [
     ("        if captured_piece_and_color.is_some() || piece_to_move == Piece::Pawn {\n            board.reset_halfmove_clock();\n        } else {\n            board.increment_halfmove_clock();\n        }\n",
      "        update_halfmove_clock(board, captured_piece_and_color.is_some());\n"),
     ("/// Determines if a move is an en passant move.", "fn update_halfmove_clock(board: &mut Board, reset: bool) {\n    if reset {\n        board.reset_halfmove_clock();\n    } else {\n        board.increment_halfmove_clock();\n    }\n}\n\n/// Determines if a move is an en passant move."),
   ], None, "violation", ["C16"]),
 # ---- apply / undo (C03 C04 C12 C16)
 ("castle-undo-forgets-halfmove-pop", "src/chess_move/castle.rs", "        board.pop_halfmove_clock();\n        board.pop_en_passant_target();\n        board.pop_castle_rights();\n\n        Ok(())\n    }\n}\n\nimpl fmt::Display for CastleChessMove", "        board.pop_en_passant_target();\n        board.pop_castle_rights();\n\n        Ok(())\n    }\n}\n\nimpl fmt::Display for CastleChessMove", "violation", ["C04"]),
 ("ep-victim-wrong-direction", "src/chess_move/en_passant.rs", "            Color::White => *to_square >> 8,\n            Color::Black => *to_square << 8,\n        };\n\n        if board.remove", "            Color::White => *to_square << 8,\n            Color::Black => *to_square >> 8,\n        };\n\n        if board.remove", "violation", ["C03"]),
 ("castle-rook-lands-wrong", "src/chess_move/castle.rs", "            (Color::White, false) => (A1, D1),\n            (Color::Black, true) => (H8, F8),\n            (Color::Black, false) => (A8, D8),\n        };\n\n        if board.get(*king_from)", "            (Color::White, false) => (A1, C1),\n            (Color::Black, true) => (H8, F8),\n            (Color::Black, false) => (A8, D8),\n        };\n\n        if board.get(*king_from)", "violation", ["C03"]),
 ("black-king-keeps-rights", "src/chess_move/standard.rs", "(Piece::King, Color::Black, E8) => BLACK_KINGSIDE_RIGHTS | BLACK_QUEENSIDE_RIGHTS,", "(Piece::King, Color::Black, E8) => BLACK_KINGSIDE_RIGHTS,", "violation", ["C03", "C12"]),
 ("ep-target-from-to-square", "src/chess_move/standard.rs", "        Color::White => from_square << 8,\n        Color::Black => from_square >> 8,\n    }\n}", "        Color::White => to_square >> 8,\n        Color::Black => from_square >> 8,\n    }\n}", "ok", ["C03"]),
 ("fullmove-not-incremented-in-ep", "src/chess_move/en_passant.rs", "        board.reset_halfmove_clock();\n        board.increment_fullmove_clock();\n", "        board.reset_halfmove_clock();\n", "violation", ["C16"]),
 ("promotion-undo-keeps-piece", "src/chess_move/pawn_promotion.rs", "board.put(*to_square, Piece::Pawn, color)?;", "board.put(*to_square, piece, color)?;", "violation", ["C04"]),
 ("apply-statements-reordered", "src/chess_move/standard.rs", "        board.increment_fullmove_clock();\n        board.push_en_passant_target(en_passant_target);\n", "        board.push_en_passant_target(en_passant_target);\n        board.increment_fullmove_clock();\n", "ok", ["C03", "C04"]),
 # ---- generator (C01 C02 C06)
 ("pawn-attack-wraps-file", "src/move_generator/targets.rs", "            Color::White => (pawn << 9) & !Bitboard::A_FILE,\n            Color::Black => (pawn >> 7) & !Bitboard::A_FILE,\n        };\n\n        let attack_east", "            Color::White => pawn << 9,\n            Color::Black => (pawn >> 7) & !Bitboard::A_FILE,\n        };\n\n        let attack_east", "violation", ["C06", "C01"]),
 ("double-push-through-piece", "src/move_generator/targets.rs", "        if single_move.overlaps(occupied) {\n            // pawn is blocked and can make no moves\n            continue;\n        }\n", "", "violation", ["C01"]),
 ("castle-ignores-b-file", "src/move_generator/mod.rs", "        && !queenside_rook_transit_square.overlaps(occupied)\n", "", "violation", ["C01"]),
 ("castle-through-check-allowed", "src/move_generator/mod.rs", "        && !kingside_transit_square.overlaps(attacked_squares)\n", "", "violation", ["C01"]),
 ("filter-keeps-check", "src/move_generator/mod.rs", "        if !king.overlaps(attacked_squares) {\n            valid_moves.push(chess_move);", "        if !king.overlaps(attacked_squares) || king.is_empty() {\n            valid_moves.push(chess_move);", "ok", ["C01"]),
 ("filter-forgets-undo", "src/move_generator/mod.rs", "        let attacked_squares = targets.generate_attack_targets(board, color.opposite());\n        chess_move.undo(board).unwrap();\n", "        let attacked_squares = targets.generate_attack_targets(board, color.opposite());\n", "violation", ["C01"]),
 ("ep-from-wrong-side", "src/move_generator/mod.rs", "            Color::White => en_passant_target >> 9,\n            Color::Black => en_passant_target << 7,", "            Color::White => en_passant_target >> 7,\n            Color::Black => en_passant_target << 7,", "violation", ["C01"]),
 ("cache-key-drops-colour", "src/move_generator/mod.rs", "let key = (board.current_position_hash(), player as u8);", "let key = (board.current_position_hash(), 0u8);", "violation", ["C02"]),
 ("attack-cache-stores-other-colour", "src/move_generator/mod.rs", "            .cache_attack(player, board_hash, attack_targets);", "            .cache_attack(player.opposite(), board_hash, attack_targets);", "violation", ["C02", "C06"]),
 ("knight-targets-include-own", "src/move_generator/targets.rs", "let candidates = self.get_precomputed_targets(sq, piece) & !occupied;", "let candidates = self.get_precomputed_targets(sq, piece);", "violation", ["C01"]),
 ("checkmate-without-check", "src/evaluate/mod.rs", "    return check && candidates.is_empty();", "    return candidates.is_empty();", "violation", ["C06"]),
 ("stalemate-is-mate", "src/evaluate/mod.rs", "        if check {\n            return Some(GameEnding::Checkmate);\n        } else {\n            return Some(GameEnding::Stalemate);", "        if check {\n            return Some(GameEnding::Checkmate);\n        } else {\n            return Some(GameEnding::Checkmate);", "violation", ["C06"]),
 ("generator-calls-reordered", "src/move_generator/mod.rs", "    generate_knight_moves(&mut moves, board, color, targets);\n    generate_sliding_moves(&mut moves, board, color, targets);\n", "    generate_sliding_moves(&mut moves, board, color, targets);\n    generate_knight_moves(&mut moves, board, color, targets);\n", "ok", ["C01"]),
 # ---- geometry (C11)
 ("walker-skips-blocker-square", "src/move_generator/magic_table.rs", "                ray = shifted;\n                moves |= ray;", "                moves |= ray;\n                ray = shifted;", "violation", ["C11"]),
 ("magic-index-forgets-mask", "src/move_generator/magic_table.rs", "let blockers = blockers.0 & entry.mask;", "let blockers = blockers.0;", "violation", ["C11"]),
 ("build-accepts-collisions", "precompile/src/magic/find_magics.rs", "        } else if *table_entry != moves {\n            // Having two different move sets in the same slot is a hash collision\n            return Err(TableFillError);\n        }", "        }", "violation", ["C11"]),
 ("king-table-wraps", "src/move_generator/targets.rs", "        *targets |= (king << 1) & !Bitboard::A_FILE; // east", "        *targets |= king << 1; // east", "violation", ["C11"]),
 # ---- search (C07) and repetition (C17)
 ("search-forgets-toggle-back", "src/alpha_beta_searcher/mod.rs", "            chess_move.undo(board).unwrap();\n            board.toggle_turn();\n\n            alpha = max(alpha, value);", "            chess_move.undo(board).unwrap();\n\n            alpha = max(alpha, value);", "violation", ["C07"]),
 ("search-forgets-undo-min", "src/alpha_beta_searcher/mod.rs", "            chess_move.undo(board).unwrap();\n            board.toggle_turn();\n\n            beta = min(beta, value);", "            board.toggle_turn();\n\n            beta = min(beta, value);", "violation", ["C07"]),
 ("search-depth-guard-off-by-one", "src/alpha_beta_searcher/mod.rs", "    if context.search_depth() < 1 {", "    if context.search_depth() < 2 {", "violation", ["C07"]),
 ("search-empty-guard-removed", "src/alpha_beta_searcher/mod.rs", "    if candidates.is_empty() {\n        return Err(SearchError::NoAvailableMoves);\n    }\n", "", "violation", ["C07"]),
 ("search-leaf-at-depth-one", "src/alpha_beta_searcher/mod.rs", "    if depth == 0 {\n        let score = evaluate::score", "    if depth <= 1 {\n        let score = evaluate::score", "ok", ["C07"]),
 ("search-recursion-underflow", "src/alpha_beta_searcher/mod.rs", "                    depth - 1,\n                    alpha,\n                    beta,\n                    false,", "                    depth - 2,\n                    alpha,\n                    beta,\n                    false,", "violation", ["C07"]),
 ("search-returns-unsearched-move", "src/alpha_beta_searcher/mod.rs", "        (score, chess_move.clone())\n", "        (score, candidates[0].clone())\n", "ok", ["C07"]),
 ("benign-search-toggle-before-undo", "src/alpha_beta_searcher/mod.rs", "            chess_move.undo(board).unwrap();\n            board.toggle_turn();\n\n            alpha = max(alpha, value);", "            board.toggle_turn();\n            chess_move.undo(board).unwrap();\n\n            alpha = max(alpha, value);", "ok", ["C07"]),
 ("benign-search-depth-eq-zero", "src/alpha_beta_searcher/mod.rs", "    if context.search_depth() < 1 {", "    if context.search_depth() == 0 {", "ok", ["C07"]),
 ("benign-search-guard-after-sort", "src/alpha_beta_searcher/mod.rs", "    if candidates.is_empty() {\n        return Err(SearchError::NoAvailableMoves);\n    }\n    sort_chess_moves(&mut candidates, &board);\n", "    sort_chess_moves(&mut candidates, &board);\n    if candidates.is_empty() {\n        return Err(SearchError::NoAvailableMoves);\n    }\n", "ok", ["C07"]),
 ("benign-search-turn-read-earlier", "src/alpha_beta_searcher/mod.rs", "    {\n        let mut count = context.searched_position_count.write().unwrap();\n        *count += 1;\n    }\n\n    let current_turn = board.turn();\n", "    let current_turn = board.turn();\n    {\n        let mut count = context.searched_position_count.write().unwrap();\n        *count += 1;\n    }\n\n", "ok", ["C07"]),
 ("benign-search-local-depth-first", "src/alpha_beta_searcher/mod.rs", "        let mut local_board = board.clone();\n        let mut local_move_generator = MoveGenerator::new();\n        let mut local_context = context.clone();\n        let local_depth = context.search_depth();\n", "        let local_depth = context.search_depth();\n        let mut local_board = board.clone();\n        let mut local_context = context.clone();\n        let mut local_move_generator = MoveGenerator::new();\n", "ok", ["C07"]),
 ("benign-search-rename-value", "src/alpha_beta_searcher/mod.rs", "re:\\bcandidates\\b", "legal_moves", "ok", ["C07"]),
 ("repetition-key-drops-turn", "src/board/position_info.rs", "        let key = (self.current_position_hash, turn as u8);\n        self.position_count\n            .entry(key)\n            .and_modify(|count| *count += 1)", "        let key = (self.current_position_hash, 0u8);\n        self.position_count\n            .entry(key)\n            .and_modify(|count| *count += 1)", "violation", ["C17"]),
 ("repetition-uncount-keeps-stack", "src/board/position_info.rs", "        self.max_seen_position_count_stack.pop();\n", "", "violation", ["C17"]),
 ("repetition-count-starts-at-zero", "src/board/position_info.rs", "            .or_insert(1);", "            .or_insert(0);", "violation", ["C17"]),
 ("repetition-board-passes-other-turn", "src/board/mod.rs", "        self.position_info.count_current_position(self.turn)", "        self.position_info.count_current_position(self.turn.opposite())", "violation", ["C17"]),
 ("benign-repetition-get-copied", "src/board/position_info.rs", "        let count = *self.position_count.get(&key).unwrap();\n        self.max_seen_position_count_stack.push(count);\n        count", "        let count = *self.position_count.get(&key).unwrap();\n        let reported = count;\n        self.max_seen_position_count_stack.push(reported);\n        reported", "ok", ["C17"]),
 ("game-forgets-history", "src/game/game.rs", "            Ok(_capture) => {\n                self.save_move(chess_move.clone());\n                self.register_position_after_move();\n                Ok(())", "            Ok(_capture) => {\n                self.register_position_after_move();\n                Ok(())", "violation", ["C17"]),
 ("benign-game-over-binds-result", "src/game/game.rs", "        let turn = self.board.turn();\n        evaluate::game_ending(&mut self.board, &mut self.move_generator, turn)\n", "        let side_to_move = self.board.turn();\n        let ending = evaluate::game_ending(&mut self.board, &mut self.move_generator, side_to_move);\n        ending\n", "ok", ["C17"]),
 ("game-over-asks-for-the-other-side", "src/game/game.rs", "    pub fn check_game_over_for_current_turn(&mut self) -> Option<GameEnding> {\n        let turn = self.board.turn();", "    pub fn check_game_over_for_current_turn(&mut self) -> Option<GameEnding> {\n        let turn = self.board.turn().opposite();", "violation", ["C17"]),
 ("annotate-forgets-undo", "src/move_generator/mod.rs", "            ChessMoveEffect::None\n        };\n        chess_move.undo(board).unwrap();\n", "            ChessMoveEffect::None\n        };\n", "violation|undecided", ["C06"]),   # refuted, or (depending on the shard layout) Z3 runs into the resource limit: exit 1 or 2, never 0
 # ---- the Game API (C14 coordinate pairs, C15 engine move)
 ("game-find-ignores-to-square", "src/game/game.rs", "            .find(|m| m.from_square() == from_square && m.to_square() == to_square)\n            .ok_or(GameError::InvalidMove)?;\n        self.apply_chess_move(chess_move.clone())?;", "            .find(|m| m.from_square() == from_square)\n            .ok_or(GameError::InvalidMove)?;\n        self.apply_chess_move(chess_move.clone())?;", "violation", ["C14"]),
 ("game-coordinates-not-recorded", "src/game/game.rs", "            Ok(_capture) => {\n                self.save_move(chess_move.clone());\n                self.register_position_after_move();\n                Ok(())", "            Ok(_capture) => {\n                self.register_position_after_move();\n                Ok(())", "violation", ["C14"]),
 ("game-rejection-toggles-turn", "src/game/game.rs", "            .ok_or(GameError::InvalidMove)?;\n        self.apply_chess_move(chess_move.clone())?;\n        Ok(chess_move.clone())", "            .ok_or_else(|| GameError::InvalidMove);\n        let chess_move = match chess_move { Ok(m) => m, Err(e) => { self.board.toggle_turn(); return Err(e); } };\n        self.apply_chess_move(chess_move.clone())?;\n        Ok(chess_move.clone())", "violation", ["C14"]),
 ("game-applies-for-other-side", "src/game/game.rs", "        let turn = self.board.turn();\n        let candidates = self.move_generator.generate_moves(&mut self.board, turn);", "        let turn = self.board.turn().opposite();\n        let candidates = self.move_generator.generate_moves(&mut self.board, turn);", "violation", ["C14"]),
 ("engine-book-miss-is-error", "src/game/game.rs", "            None => self.select_alpha_beta_best_move(),", "            None => return Err(GameError::InvalidMove),", "violation", ["C15"]),
 ("engine-book-takes-first-candidate", "src/game/game.rs", "        match maybe_chess_move {\n            Some(result) => Ok(result.clone()),", "        match maybe_chess_move {\n            Some(_result) => Ok(candidates[0].clone()),", "ok", ["C15"]),
 ("engine-book-returns-unlisted-move", "src/game/game.rs", "        let candidates = self\n            .move_generator\n            .generate_moves_and_lazily_update_chess_move_effects(&mut self.board, current_turn);\n\n        let maybe_chess_move", "        let candidates = self\n            .move_generator\n            .generate_moves_and_lazily_update_chess_move_effects(&mut self.board, current_turn.opposite());\n\n        let maybe_chess_move", "violation", ["C15"]),
 ("benign-game-find-swapped-conjuncts", "src/game/game.rs", "            .find(|m| m.from_square() == from_square && m.to_square() == to_square)\n            .ok_or(GameError::InvalidMove)?;", "            .find(|m| m.to_square() == to_square && m.from_square() == from_square)\n            .ok_or(GameError::InvalidMove)?;", "ok", ["C14"]),
 # ---- more behaviour-preserving refactorings (negated branches, reordered independent statements, temporaries)
 ("benign-apply-negated-branch", "src/chess_move/standard.rs", "        if captured_piece_and_color.is_some() || piece_to_move == Piece::Pawn {\n            board.reset_halfmove_clock();\n        } else {\n            board.increment_halfmove_clock();\n        }\n", "        if !(captured_piece_and_color.is_some() || piece_to_move == Piece::Pawn) {\n            board.increment_halfmove_clock();\n        } else {\n            board.reset_halfmove_clock();\n        }\n", "ok", ["C03", "C16"]),
 ("benign-apply-put-before-stacks", "src/chess_move/standard.rs", "        board.increment_fullmove_clock();\n        board.push_en_passant_target(en_passant_target);\n        board.lose_castle_rights(lost_castle_rights);\n        board\n            .put(*to_square, piece_to_move, color_of_piece_to_move)\n            .unwrap();\n\n        Ok(())", "        board\n            .put(*to_square, piece_to_move, color_of_piece_to_move)\n            .unwrap();\n        board.increment_fullmove_clock();\n        board.push_en_passant_target(en_passant_target);\n        board.lose_castle_rights(lost_castle_rights);\n\n        Ok(())", "ok", ["C03", "C05"]),
 ("benign-game-ending-order", "src/evaluate/mod.rs", "    if board.max_seen_position_count() == 3 {\n        return Some(GameEnding::Draw);\n    }\n\n    if board.halfmove_clock() >= 100 {\n        return Some(GameEnding::Draw);\n    }\n", "    if board.halfmove_clock() >= 100 {\n        return Some(GameEnding::Draw);\n    }\n\n    if board.max_seen_position_count() == 3 {\n        return Some(GameEnding::Draw);\n    }\n", "ok", ["C16", "C06"]),
 ("benign-game-ending-merged", "src/evaluate/mod.rs", "    if board.max_seen_position_count() == 3 {\n        return Some(GameEnding::Draw);\n    }\n\n    if board.halfmove_clock() >= 100 {\n        return Some(GameEnding::Draw);\n    }\n", "    if board.max_seen_position_count() == 3 || board.halfmove_clock() >= 100 {\n        return Some(GameEnding::Draw);\n    }\n", "ok", ["C16", "C06"]),
 ("benign-checkmate-no-return-keyword", "src/evaluate/mod.rs", "    return check && candidates.is_empty();", "    candidates.is_empty() && check", "ok", ["C06"]),
 ("benign-count-temp-variable", "src/board/position_info.rs", "        self.max_seen_position_count_stack.pop();\n        *self.position_count.get(&key).unwrap()", "        self.max_seen_position_count_stack.pop();\n        let remaining = *self.position_count.get(&key).unwrap();\n        remaining", "ok", ["C17"]),
 ("benign-search-value-first", "src/alpha_beta_searcher/mod.rs", "            beta = min(beta, value);\n            if beta <= alpha {", "            beta = min(value, beta);\n            if alpha >= beta {", "ok", ["C08", "C07"]),
 ("benign-perft-depth-zero-guard", "src/move_generator/mod.rs", "    let mut count = candidates.len();\n\n    if depth == 0 {\n        return count;\n    }", "    let mut count = candidates.len();\n\n    if depth < 1 {\n        return count;\n    }", "ok", ["C10"]),
 ("benign-undo-put-before-pops", "src/chess_move/standard.rs", "        board.pop_halfmove_clock();\n        board.decrement_fullmove_clock();\n        board.pop_en_passant_target();\n        board.pop_castle_rights();\n        board\n            .put(\n                *from_square,\n                piece_to_move_back,\n                color_of_piece_to_move_back,\n            )\n            .unwrap();\n\n        Ok(())", "        board\n            .put(\n                *from_square,\n                piece_to_move_back,\n                color_of_piece_to_move_back,\n            )\n            .unwrap();\n        board.pop_castle_rights();\n        board.pop_en_passant_target();\n        board.decrement_fullmove_clock();\n        board.pop_halfmove_clock();\n\n        Ok(())", "ok", ["C04", "C05"]),
 ("undo-forgets-castle-rights-pop", "src/chess_move/standard.rs", "        board.pop_en_passant_target();\n        board.pop_castle_rights();\n        board\n            .put(\n                *from_square,", "        board.pop_en_passant_target();\n        board\n            .put(\n                *from_square,", "violation", ["C04"]),
 ("game-forgets-registration", "src/game/game.rs", "                self.save_move(chess_move.clone());\n                self.register_position_after_move();\n                Ok(())", "                self.save_move(chess_move.clone());\n                Ok(())", "violation", ["C17"]),
 ("game-registers-under-the-mover", "src/game/game.rs", "        let side_to_move = self.board.turn().opposite();\n        self.board.count_position_with_side_to_move(side_to_move);", "        let side_to_move = self.board.turn();\n        self.board.count_position_with_side_to_move(side_to_move);", "violation", ["C17"]),
 ("engine-move-not-registered", "src/game/game.rs", "        self.save_move(best_move.clone());\n        self.register_position_after_move();\n        Ok(best_move)", "        self.save_move(best_move.clone());\n        Ok(best_move)", "violation", ["C17"]),
 ("benign-registration-before-history", "src/game/game.rs", "                self.save_move(chess_move.clone());\n                self.register_position_after_move();\n                Ok(())", "                self.register_position_after_move();\n                self.save_move(chess_move.clone());\n                Ok(())", "ok", ["C17", "C14"]),
 # ---- search value (C08)
 ("cache-key-drops-depth", "src/alpha_beta_searcher/mod.rs", "        board.current_position_hash(),\n        depth,\n        maximizing_player,", "        board.current_position_hash(),\n        0,\n        maximizing_player,", "violation", ["C08"]),
 ("cache-key-drops-side", "src/alpha_beta_searcher/mod.rs", "        depth,\n        maximizing_player,\n        alpha,", "        depth,\n        true,\n        alpha,", "violation", ["C08"]),
 ("cache-key-swaps-window", "src/alpha_beta_searcher/mod.rs", "        maximizing_player,\n        alpha,\n        beta,\n    );", "        maximizing_player,\n        beta,\n        alpha,\n    );", "violation", ["C08"]),
 ("search-max-node-takes-min", "src/alpha_beta_searcher/mod.rs", "            value = max(\n                value,\n                alpha_beta_minimax(", "            value = min(\n                value,\n                alpha_beta_minimax(", "violation", ["C08"]),
 ("search-cutoff-too-early", "src/alpha_beta_searcher/mod.rs", "            alpha = max(alpha, value);\n            if beta <= alpha {", "            alpha = max(alpha, value);\n            if beta <= alpha + 50 {", "violation", ["C08"]),
 ("search-root-picks-worst", "src/alpha_beta_searcher/mod.rs", "    if current_player_is_maximizing {\n        scored_moves.reverse();\n    }", "    if !current_player_is_maximizing {\n        scored_moves.reverse();\n    }", "violation", ["C08"]),
 ("search-leaf-ignores-depth", "src/alpha_beta_searcher/mod.rs", "    if candidates.is_empty() {\n        let score = evaluate::score(board, move_generator, current_turn, depth);", "    if candidates.is_empty() {\n        let score = evaluate::score(board, move_generator, current_turn, 0);", "violation", ["C08"]),
 ("search-child-same-side", "src/alpha_beta_searcher/mod.rs", "                    alpha,\n                    beta,\n                    false,\n                )", "                    alpha,\n                    beta,\n                    true,\n                )", "violation", ["C08"]),
 ("search-returns-unsearched-move-c08", "src/alpha_beta_searcher/mod.rs", "        (score, chess_move.clone())\n", "        (score, candidates[0].clone())\n", "violation", ["C08"]),
 # value-preserving (believed), but the recursion is then entered with alpha == beta, which the contract
 # (proper window) excludes and the ORIGINAL cut-off rule needs: a known false-alarm class for C08 (DESIGN 11.8)
 ("benign-search-strict-cutoff", "src/alpha_beta_searcher/mod.rs", "            beta = min(beta, value);\n            if beta <= alpha {", "            beta = min(beta, value);\n            if beta < alpha {", "violation", ["C08"]),
 ("benign-search-strict-cutoff-c07", "src/alpha_beta_searcher/mod.rs", "            beta = min(beta, value);\n            if beta <= alpha {", "            beta = min(beta, value);\n            if beta < alpha {", "ok", ["C07"]),
 ("benign-search-toggle-before-undo-c08", "src/alpha_beta_searcher/mod.rs", "            chess_move.undo(board).unwrap();\n            board.toggle_turn();\n\n            alpha = max(alpha, value);", "            board.toggle_turn();\n            chess_move.undo(board).unwrap();\n\n            alpha = max(alpha, value);", "ok", ["C08"]),
 ("benign-extract-store-helper", "src/alpha_beta_searcher/mod.rs", [
     ("        set_cache(context, search_node, value);\n        Ok(value)\n    } else {", "        store_result(context, search_node, value);\n        Ok(value)\n    } else {"),
     ("fn set_cache(context: &mut SearchContext, search_node: SearchNode, score: i16) {", "fn store_result(context: &mut SearchContext, search_node: SearchNode, score: i16) {\n    set_cache(context, search_node, score);\n}\n\nfn set_cache(context: &mut SearchContext, search_node: SearchNode, score: i16) {"),
   ], None, "ok", ["C08", "C07"]),
 ("extract-store-helper-wrong-key", "src/alpha_beta_searcher/mod.rs", [
     ("        set_cache(context, search_node, value);\n        Ok(value)\n    } else {", "        store_result(context, search_node, value);\n        Ok(value)\n    } else {"),
     ("fn set_cache(context: &mut SearchContext, search_node: SearchNode, score: i16) {", "fn store_result(context: &mut SearchContext, search_node: SearchNode, score: i16) {\n    let (h, d, m, _, _) = search_node;\n    set_cache(context, (h, d, m, i16::MIN, i16::MAX), score);\n}\n\nfn set_cache(context: &mut SearchContext, search_node: SearchNode, score: i16) {"),
   ], None, "violation", ["C08"]),
 # ---- the parallel perft entry point (C10, rule R20)
 ("perft-root-wrong-depth", "src/move_generator/mod.rs", "            let local_count = count_positions_inner(\n                depth - 1,", "            let local_count = count_positions_inner(\n                depth,", "violation", ["C10"]),
 ("perft-root-forgets-initial-count", "src/move_generator/mod.rs", "        initial_count + inner_counts.sum::<usize>()", "        inner_counts.sum::<usize>()", "violation", ["C10"]),
 ("perft-root-same-colour", "src/move_generator/mod.rs", "        let next_player = player.opposite();", "        let next_player = player;", "violation", ["C10"]),
 ("benign-perft-root-no-undo", "src/move_generator/mod.rs", "            chess_move.undo(&mut local_board).unwrap();\n            local_count\n", "            local_count\n", "ok", ["C10"]),
 ("perft-inner-forgets-undo", "src/move_generator/mod.rs", "        count += count_positions_inner(depth - 1, board, next_color, move_generator);\n        chess_move.undo(board).unwrap();\n", "        count += count_positions_inner(depth - 1, board, next_color, move_generator);\n", "violation", ["C10"]),
 # ---- evaluation (C18 C16)
 ("black-uses-white-index", "src/evaluate/mod.rs", "        Color::Black => SQUARE_TO_BLACK_BONUS_INDEX,", "        Color::Black => SQUARE_TO_WHITE_BONUS_INDEX,", "violation", ["C18"]),
 ("mate-score-ignores-depth-sign", "src/evaluate/mod.rs", "                BLACK_WINS - remaining_depth as i16", "                BLACK_WINS + remaining_depth as i16", "violation", ["C18"]),
 ("draw-at-99", "src/evaluate/mod.rs", "if board.halfmove_clock() >= 100 {", "if board.halfmove_clock() >= 99 {", "violation", ["C16"]),
 # ---- knight / king table generators (verified by Verus since R2f) and the queen clause of C14 (11.14)
 ("knight-table-wrong-file-mask", "src/move_generator/targets.rs", "let move_nee = knight << 10 & !Bitboard::A_FILE & !Bitboard::B_FILE;", "let move_nee = knight << 10 & !Bitboard::A_FILE;", "violation", ["C11"]),
 ("king-table-forgets-west", "src/move_generator/targets.rs", "        *targets |= (king >> 1) & !Bitboard::H_FILE; // west\n", "", "violation", ["C11", "C06"]),
 ("king-table-wraps-east", "src/move_generator/targets.rs", "*targets |= (king << 1) & !Bitboard::A_FILE; // east", "*targets |= king << 1; // east", "violation", ["C11"]),
 ("benign-king-table-reordered", "src/move_generator/targets.rs", [
     ("        *targets |= (king << 1) & !Bitboard::A_FILE; // east\n        *targets |= (king >> 1) & !Bitboard::H_FILE; // west\n", ""),
     ("        *targets |= (king << 9) & !Bitboard::RANK_1 & !Bitboard::A_FILE; // northeast\n", "        *targets |= (king << 1) & !Bitboard::A_FILE; // east\n        *targets |= (king >> 1) & !Bitboard::H_FILE; // west\n        *targets |= (king << 9) & !Bitboard::RANK_1 & !Bitboard::A_FILE; // northeast\n"),
   ], None, "ok", ["C11"]),
 ("benign-knight-table-or-reordered", "src/move_generator/targets.rs", "move_nne | move_nee | move_see | move_sse | move_nnw | move_nww | move_sww | move_ssw;", "move_ssw | move_sww | move_nww | move_nnw | move_sse | move_see | move_nee | move_nne;", "ok", ["C11"]),
 ("promotions-reordered-c14", "src/move_generator/mod.rs", "[Piece::Queen, Piece::Rook, Piece::Bishop, Piece::Knight]", "[Piece::Knight, Piece::Rook, Piece::Bishop, Piece::Queen]", "violation", ["C14"]),
 ("benign-promotions-reordered-c01", "src/move_generator/mod.rs", "[Piece::Queen, Piece::Rook, Piece::Bishop, Piece::Knight]", "[Piece::Knight, Piece::Rook, Piece::Bishop, Piece::Queen]", "ok", ["C01"]),
 ("filter-reverses-order", "src/move_generator/mod.rs", "            valid_moves.push(chess_move);", "            valid_moves.insert(0, chess_move);", "violation", ["C14"]),
 ("coordinates-take-last-match", "src/game/game.rs", ".find(|m| m.from_square() == from_square && m.to_square() == to_square)\n            .ok_or(", ".filter(|m| m.from_square() == from_square && m.to_square() == to_square).last()\n            .ok_or(", "violation|undecided", ["C14"]),

]


def run_one(m):
    name, rel, old, new, expected, props = m
    tmp = tempfile.mkdtemp(prefix='vx_mut_')
    try:
        dst = os.path.join(tmp, 'repo')
        subprocess.run(['rsync', '-a', '--exclude', '.git', '--exclude', 'target/debug/deps', '--exclude', 'target/debug/incremental',
                        '--exclude', 'target/release', REPO + '/', dst + '/'], check=True)
        p = os.path.join(dst, rel)
        s = open(p).read()
        if isinstance(old, list):
            for (o1, n1) in old:
                if s.count(o1) != 1:
                    return {'name': name, 'error': 'pattern %r matches %d times' % (o1[:30], s.count(o1))}
                s = s.replace(o1, n1)
            open(p, 'w').write(s)
        elif old.startswith('re:'):
            import re
            s2, n = re.subn(old[3:], new, s)
            if n == 0:
                return {'name': name, 'error': 'regex matches 0 times'}
            open(p, 'w').write(s2)
        else:
            if s.count(old) != 1:
                return {'name': name, 'error': 'pattern matches %d times' % s.count(old)}
            open(p, 'w').write(s.replace(old, new))
        res = {}
        for pid in props:
            env = dict(os.environ, VX_REPO=dst, VX_SHARDS='6')
            r = subprocess.run([os.path.join(VERIF, 'bin', 'vx'), 'check', pid], env=env, stdout=subprocess.PIPE,
                               stderr=subprocess.STDOUT, text=True, cwd=VERIF)
            lines = [l for l in r.stdout.split('\n') if l.startswith(('VIOLATION', 'UNDECIDED', 'OK', 'KNOWN'))]
            res[pid] = {'rc': r.returncode, 'lines': [l[:260] for l in lines if not l.startswith('KNOWN')][:4]}
        # 'violation|undecided': a defect the check either refutes or (Z3 resource limit) leaves undecided - never OK
        want = [{'violation': 1, 'ok': 0, 'undecided': 2}[e] for e in expected.split('|')]
        verdict = 'as-expected' if any(v['rc'] in want for v in res.values()) and (expected != 'ok' or all(v['rc'] == 0 for v in res.values())) else 'UNEXPECTED'
        return {'name': name, 'file': rel, 'expected': expected, 'results': res, 'verdict': verdict}
    finally:
        shutil.rmtree(tmp, ignore_errors=True)


def main():
    sel = [m for m in M if not sys.argv[1:] or any(a in m[0] for a in sys.argv[1:])]
    out = []
    with concurrent.futures.ThreadPoolExecutor(max_workers=3) as pool:
        for r in pool.map(run_one, sel):
            out.append(r)
            print(json.dumps({k: r.get(k) for k in ('name', 'expected', 'verdict', 'error')}),
                  {p: v['rc'] for p, v in r.get('results', {}).items()}, flush=True)
    path = os.path.join(VERIF, 'seeded', 'selftest.json')
    old = []
    if os.path.exists(path) and sys.argv[1:]:
        old = [x for x in json.load(open(path)) if x['name'] not in {r['name'] for r in out}]
    json.dump(old + out, open(path, 'w'), indent=1)
    bad = [r['name'] for r in out if r.get('verdict') != 'as-expected']
    print('unexpected:', bad)


if __name__ == '__main__':
    main()
