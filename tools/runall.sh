#!/bin/bash
# run every claimed check (quick tier), three at a time; print one line per check
cd "$(dirname "$0")/.."
ids=$(python3 -c "import json;print(' '.join(c['property_id'] for c in json.load(open('MANIFEST.json'))['checks']))")
mkdir -p work/logs
run() { p=$1; s=$(date +%s); bin/vx check $p --tier ${TIER:-quick} > work/logs/$p.log 2>&1; rc=$?; echo "$p rc=$rc $(( $(date +%s)-s ))s $(grep -c '^VIOLATION' work/logs/$p.log) violations; $(tail -1 work/logs/$p.log | cut -c1-160)"; }
export -f run
echo $ids | tr ' ' '\n' | xargs -P 3 -I{} bash -c 'run {}'
