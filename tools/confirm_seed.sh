#!/bin/bash
# confirm a seeded change in its scratch worktree WITHOUT git stash (the stash is shared between worktrees):
# demo fails with the change, passes without; lib suite passes with the change
id=$1; wt=$2; patch=$3
cd $wt || exit 2
git checkout -q -- src common precompile 2>/dev/null
git apply $patch || { echo "$id: patch does not apply"; exit 2; }
a=$(cargo test --offline --test demo_$id 2>&1 | grep "^test result" | head -1)
git apply -R $patch
b=$(cargo test --offline --test demo_$id 2>&1 | grep "^test result" | head -1)
git apply $patch
c=$(cargo test --offline --lib 2>&1 | grep "^test result" | head -1)
echo "$id | with change: $a | without: $b | lib suite with change: $c"
