#!/bin/bash
# confirm a seeded change in its scratch worktree: demo fails with the change, passes without; lib suite passes with the change
id=$1; wt=$2
cd $wt || exit 2
a=$(cargo test --offline --test demo_$id 2>&1 | grep "^test result" | head -1)
git stash push -q -- src common precompile
b=$(cargo test --offline --test demo_$id 2>&1 | grep "^test result" | head -1)
git stash pop -q
c=$(cargo test --offline --lib 2>&1 | grep "^test result" | head -1)
echo "$id | with change: $a | without: $b | lib suite with change: $c"
