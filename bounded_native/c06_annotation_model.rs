// BOUNDED native twin for C06 (never counted as proved): every move of the annotated move list carries the
// verdict of the position it produces (check / checkmate / neither), and player_is_in_check / game_ending agree
// with a brute-force reading of the same position.  The oracle uses a SEPARATE, fresh generator and only the
// un-annotated primitives (generate_moves, get_attack_targets).
// Bound: 14 pseudo-random openings + 10 hand-made positions (discovered check by en passant, by a quiet move,
// double check, castling check, promotion check / mate, back-rank mate, stalemate).
include!("common.rs");
use chess::chess_move::chess_move_effect::ChessMoveEffect;
use chess::chess_move::standard::StandardChessMove;
use chess::evaluate::{self, GameEnding};
use common::bitboard::square::*;

fn verdict(mg: &mut MoveGenerator, b: &mut Board, side: Color) -> (bool, bool) {
    // (in check, has a legal move) for `side` in b, with the oracle's own generator
    let king = b.pieces(side).locate(Piece::King);
    let attacked = mg.get_attack_targets(b, side.opposite());
    let in_check = king.overlaps(attacked);
    let has_move = !mg.generate_moves(b, side).is_empty();
    (in_check, has_move)
}

fn positions() -> Vec<(String, Board)> {
    let mut v: Vec<(String, Board)> = (0..14).map(|g| (format!("opening {}", g), opening(g, 5 + g as usize))).collect();
    // en passant that discovers a check on the long diagonal (after ...d7-d5)
    let mut ep = setup(&[(E1, Piece::King, Color::White), (E5, Piece::Pawn, Color::White), (G2, Piece::Bishop, Color::White),
                         (A8, Piece::King, Color::Black), (D7, Piece::Pawn, Color::Black)], Color::Black);
    ChessMove::Standard(StandardChessMove::new(D7, D5, None)).apply(&mut ep).unwrap();
    ep.toggle_turn();
    v.push(("en passant discovers check".into(), ep));
    let mut ep2 = setup(&[(E1, Piece::King, Color::White), (E5, Piece::Pawn, Color::White), (G2, Piece::Bishop, Color::White),
                          (A8, Piece::King, Color::Black), (D7, Piece::Pawn, Color::Black), (A7, Piece::Pawn, Color::Black), (B8, Piece::Bishop, Color::Black)], Color::Black);
    ChessMove::Standard(StandardChessMove::new(D7, D5, None)).apply(&mut ep2).unwrap();
    ep2.toggle_turn();
    v.push(("en passant discovers mate".into(), ep2));
    v.push(("quiet move discovers check".into(), setup(&[(E1, Piece::King, Color::White), (E2, Piece::Rook, Color::White), (E4, Piece::Knight, Color::White), (E8, Piece::King, Color::Black)], Color::White)));
    v.push(("double check".into(), setup(&[(A1, Piece::King, Color::White), (E1, Piece::Rook, Color::White), (E5, Piece::Bishop, Color::White), (E8, Piece::King, Color::Black), (H7, Piece::Pawn, Color::Black)], Color::White)));
    v.push(("promotion with check or mate".into(), setup(&[(G6, Piece::King, Color::White), (B7, Piece::Pawn, Color::White), (G8, Piece::King, Color::Black)], Color::White)));
    v.push(("back-rank mate available".into(), setup(&[(G1, Piece::King, Color::White), (E1, Piece::Rook, Color::White), (G8, Piece::King, Color::Black),
        (F7, Piece::Pawn, Color::Black), (G7, Piece::Pawn, Color::Black), (H7, Piece::Pawn, Color::Black)], Color::White)));
    v.push(("stalemate threat".into(), setup(&[(F7, Piece::King, Color::White), (G5, Piece::Queen, Color::White), (H8, Piece::King, Color::Black)], Color::White)));
    v.push(("only the knight promotion checks".into(), setup(&[(A1, Piece::King, Color::White), (C7, Piece::Pawn, Color::White), (E7, Piece::King, Color::Black)], Color::White)));
    v.push(("stalemating under-promotions".into(), setup(&[(H6, Piece::King, Color::White), (E7, Piece::Knight, Color::White), (F7, Piece::Pawn, Color::White), (A2, Piece::Pawn, Color::White),
        (H8, Piece::King, Color::Black), (A3, Piece::Pawn, Color::Black)], Color::White)));
    let mut castle = Board::new();
    for (s, p, c) in [(E1, Piece::King, Color::White), (H1, Piece::Rook, Color::White), (F8, Piece::King, Color::Black), (A7, Piece::Pawn, Color::Black)] { castle.put(s, p, c).unwrap(); }
    castle.lose_castle_rights(0b0111);
    castle.set_turn(Color::White);
    v.push(("castling gives check".into(), castle));
    v
}

#[test]
fn annotations_and_verdicts_agree_with_the_positions_they_describe() {
    let mut oracle = MoveGenerator::new();   // never used by the code under test
    for (name, b0) in positions() {
        let mut b = b0.clone();
        let turn = b.turn();
        let mut mg = MoveGenerator::new();
        let list = mg.generate_moves_and_lazily_update_chess_move_effects(&mut b, turn);
        assert!(snapshot(&b) == snapshot(&b0), "{}: annotated generation changed the board", name);
        let plain = oracle.generate_moves(&mut b0.clone(), turn);
        assert_eq!(list.len(), plain.len(), "{}: annotated list has a different length", name);
        for m in list.iter() {
            let mut n = b0.clone();
            m.apply(&mut n).unwrap();
            // (a FRESH oracle generator per successor: an oracle that shares its caches across positions would inherit
            // exactly the cache defects this twin is meant to expose)
            let (in_check, has_move) = verdict(&mut MoveGenerator::new(), &mut n, turn.opposite());
            let expect = if in_check && !has_move { ChessMoveEffect::Checkmate } else if in_check { ChessMoveEffect::Check } else { ChessMoveEffect::None };
            assert!(m.effect() == expect, "{}: {} is annotated {:?}, the position it produces says {:?}", name, m, m.effect(), expect);
        }
        // verdict functions on the position itself
        let (in_check, has_move) = verdict(&mut oracle, &mut b0.clone(), turn);
        let mut bb = b0.clone();
        assert_eq!(evaluate::player_is_in_check(&mut bb, &mut MoveGenerator::new(), turn), in_check, "{}: player_is_in_check", name);
        assert_eq!(evaluate::player_is_in_checkmate(&mut bb, &mut MoveGenerator::new(), turn), in_check && !has_move, "{}: player_is_in_checkmate", name);
        let ending = evaluate::game_ending(&mut bb, &mut MoveGenerator::new(), turn);
        let expect_end = if !has_move { if in_check { Some(GameEnding::Checkmate) } else { Some(GameEnding::Stalemate) } } else { None };
        assert!(format!("{:?}", ending) == format!("{:?}", expect_end), "{}: game_ending reports {:?}, expected {:?}", name, ending, expect_end);
    }
}
