// BOUNDED native twin for C14 (coordinate pairs) and C15 (engine move) (never counted as proved).
// Bound: 5 positions (start, 2 openings, a promotion position, a supplied endgame); for C14 all 4096
// coordinate pairs each; for C15 8 engine selections each at depth 2.
include!("common.rs");
use chess::game::game::Game;
use common::bitboard::square::*;

fn positions() -> Vec<(String, Board)> {
    vec![("start".into(), Board::starting_position()), ("opening 1".into(), opening(1, 7)), ("opening 2".into(), opening(2, 12)),
         ("promotion".into(), setup(&[(E1, Piece::King, Color::White), (A7, Piece::Pawn, Color::White), (H8, Piece::King, Color::Black), (B8, Piece::Rook, Color::Black)], Color::White)),
         ("KRk supplied".into(), setup(&[(A1, Piece::King, Color::White), (H1, Piece::Rook, Color::White), (E8, Piece::King, Color::Black)], Color::White))]
}

#[test]
fn coordinate_pairs_accepted_iff_legal_played_exactly_rejected_without_effect() {
    for (name, b0) in positions() {
        let turn = b0.turn();
        let legal = MoveGenerator::new().generate_moves(&mut b0.clone(), turn);
        // (a Game is expensive to build - it compiles the opening book -, so one is reused until a move is accepted)
        let mut game = Game::from_board(b0.clone(), 1);
        for f in 0..64u32 { for t in 0..64u32 {
            let (from, to) = (Bitboard(1u64 << f), Bitboard(1u64 << t));
            if game.last_move().is_some() { game = Game::from_board(b0.clone(), 1); }
            let before = snapshot(game.board());
            let named: Vec<&ChessMove> = legal.iter().filter(|m| m.from_square() == from && m.to_square() == to).collect();
            match game.apply_chess_move_by_from_to_coordinates(from, to) {
                Ok(m) => {
                    assert!(!named.is_empty(), "{}: {}->{} accepted but names no legal move", name, f, t);
                    assert!(named.iter().any(|l| l.to_uci() == m.to_uci()), "{}: {}->{} played {} which is not one of the named moves", name, f, t, m);
                    let mut expect = b0.clone();
                    m.apply(&mut expect).unwrap();
                    assert!(snapshot(game.board()) == snapshot(&expect), "{}: {}->{} board is not the successor", name, f, t);
                    assert!(game.last_move().map(|l| l.to_uci()) == Some(m.to_uci()), "{}: {}->{} not recorded in the history", name, f, t);
                }
                Err(_) => {
                    assert!(named.is_empty(), "{}: {}->{} names a legal move but was rejected", name, f, t);
                    assert!(snapshot(game.board()) == before, "{}: {}->{} rejected but the board changed", name, f, t);
                    assert!(game.last_move().is_none(), "{}: {}->{} rejected but the history changed", name, f, t);
                }
            }
        } }
    }
}

#[test]
fn engine_move_is_a_legal_move_whenever_one_exists() {
    for (name, b0) in positions() {
        let turn = b0.turn();
        let legal = MoveGenerator::new().generate_moves(&mut b0.clone(), turn);
        for attempt in 0..8 {
            let mut game = Game::from_board(b0.clone(), 2);
            let before = snapshot(game.board());
            match game.select_waterfall_book_then_alpha_beta_best_move() {
                Ok(m) => assert!(legal.iter().any(|l| l.to_uci() == m.to_uci()), "{} attempt {}: {} is not legal", name, attempt, m),
                Err(e) => panic!("{} attempt {}: {} legal moves but the engine answered Err({})", name, attempt, legal.len(), e),
            }
            assert!(snapshot(game.board()) == before, "{} attempt {}: selecting a move changed the board", name, attempt);
        }
    }
}
