// BOUNDED native twin for C14 (coordinate pairs) and C15 (engine move) (never counted as proved).
// Bound: 5 positions (start, 2 openings, a promotion position, a supplied endgame); for C14 all 4096
// coordinate pairs each; for C15 8 engine selections each at depth 2.
include!("common.rs");
use chess::game::game::Game;
use common::bitboard::square::*;

fn positions() -> Vec<(String, Board)> {
    vec![("start".into(), Board::starting_position()), ("opening 1".into(), opening(1, 7)), ("opening 2".into(), opening(2, 12)),
         ("promotion".into(), setup(&[(E1, Piece::King, Color::White), (A7, Piece::Pawn, Color::White), (H8, Piece::King, Color::Black), (B8, Piece::Rook, Color::Black)], Color::White)),
         ("KRk supplied".into(), setup(&[(A1, Piece::King, Color::White), (H1, Piece::Rook, Color::White), (E8, Piece::King, Color::Black)], Color::White))]
}

#[test]
fn coordinate_pairs_accepted_iff_legal_played_exactly_rejected_without_effect() {
    for (name, b0) in positions() {
        let turn = b0.turn();
        let legal = MoveGenerator::new().generate_moves(&mut b0.clone(), turn);
        // (a Game is expensive to build - it compiles the opening book -, so one is reused until a move is accepted)
        let mut game = Game::from_board(b0.clone(), 1);
        for f in 0..64u32 { for t in 0..64u32 {
            let (from, to) = (Bitboard(1u64 << f), Bitboard(1u64 << t));
            if game.last_move().is_some() { game = Game::from_board(b0.clone(), 1); }
            let before = snapshot(game.board());
            let named: Vec<&ChessMove> = legal.iter().filter(|m| m.from_square() == from && m.to_square() == to).collect();
            match game.apply_chess_move_by_from_to_coordinates(from, to) {
                Ok(m) => {
                    assert!(!named.is_empty(), "{}: {}->{} accepted but names no legal move", name, f, t);
                    assert!(named.iter().any(|l| l.to_uci() == m.to_uci()), "{}: {}->{} played {} which is not one of the named moves", name, f, t, m);
                    // a pair that names a promotion promotes to a queen
                    if named.iter().any(|l| l.to_uci().len() == 5) {
                        assert!(m.to_uci().ends_with('q'), "{}: {}->{} names a promotion but played {} (not the queen promotion)", name, f, t, m.to_uci());
                    }
                    let mut expect = b0.clone();
                    m.apply(&mut expect).unwrap();
                    assert!(snapshot_position(game.board()) == snapshot_position(&expect), "{}: {}->{} board is not the successor", name, f, t);
                    assert!(game.last_move().map(|l| l.to_uci()) == Some(m.to_uci()), "{}: {}->{} not recorded in the history", name, f, t);
                }
                Err(_) => {
                    assert!(named.is_empty(), "{}: {}->{} names a legal move but was rejected", name, f, t);
                    assert!(snapshot(game.board()) == before, "{}: {}->{} rejected but the board changed", name, f, t);
                    assert!(game.last_move().is_none(), "{}: {}->{} rejected but the history changed", name, f, t);
                }
            }
        } }
    }
}

#[test]
fn engine_move_is_a_legal_move_whenever_one_exists() {
    for (name, b0) in positions() {
        let turn = b0.turn();
        let legal = MoveGenerator::new().generate_moves(&mut b0.clone(), turn);
        for attempt in 0..8 {
            let mut game = Game::from_board(b0.clone(), 2);
            let before = snapshot(game.board());
            match game.select_waterfall_book_then_alpha_beta_best_move() {
                Ok(m) => assert!(legal.iter().any(|l| l.to_uci() == m.to_uci()), "{} attempt {}: {} is not legal", name, attempt, m),
                Err(e) => panic!("{} attempt {}: {} legal moves but the engine answered Err({})", name, attempt, legal.len(), e),
            }
            assert!(snapshot(game.board()) == before, "{} attempt {}: selecting a move changed the board", name, attempt);
        }
    }
}

/// C14, notation half (bounded only: strings are outside the deductive check): along games played by typing
/// labels, every label the engine lists for a legal move is accepted and plays exactly that move; labels that
/// are legal only for the other side, or only in the previous position, are rejected without effect.
/// every label the engine lists - under-promotions, captures with check, castling included - plays ITS move
#[test]
fn every_listed_label_plays_its_own_move() {
    let mut ps = positions();
    ps.push(("under-promotions with check".into(), setup(&[(E1, Piece::King, Color::White), (E7, Piece::Pawn, Color::White), (H8, Piece::King, Color::Black), (D8, Piece::Rook, Color::Black)], Color::White)));
    ps.push(("black promotes".into(), setup(&[(E8, Piece::King, Color::Black), (B2, Piece::Pawn, Color::Black), (H1, Piece::King, Color::White), (A1, Piece::Knight, Color::White)], Color::Black)));
    for (name, b0) in ps {
        let listed = Game::from_board(b0.clone(), 1).enumerated_candidate_moves();
        assert!(!listed.is_empty(), "{}: no moves listed", name);
        for (expected_move, label) in listed {
            let mut game = Game::from_board(b0.clone(), 1);
            let mut expect = b0.clone();
            expected_move.apply(&mut expect).unwrap();
            let played = game.apply_chess_move_from_raw_algebraic_notation(label.clone())
                .unwrap_or_else(|e| panic!("{}: the listed label `{}` was rejected: {}", name, label, e));
            assert!(played.to_uci() == expected_move.to_uci(), "{}: `{}` played {} instead of {}", name, label, played.to_uci(), expected_move.to_uci());
            assert!(snapshot_position(game.board()) == snapshot_position(&expect), "{}: board after `{}` is not the successor of {}", name, label, expected_move.to_uci());
            assert!(game.last_move().map(|m| m.to_uci()) == Some(expected_move.to_uci()), "{}: `{}` recorded as {:?}", name, label, game.last_move().map(|m| m.to_uci()));
        }
    }
}

#[test]
fn typed_labels_accepted_iff_legal_played_exactly_rejected_without_effect() {
    // two crafted lines in which a placement recurs with the OTHER side to move (tempo loss), then random games
    let crafted: Vec<Vec<&str>> = vec![
        vec!["e3", "e6", "Qf3", "Nf6", "Qe2", "Ng8", "Qd1", "Nf6"],
        vec!["Nf3", "Nf6", "Ng1", "Ng8", "e4", "e5", "Ke2", "Ke7", "Ke1", "Ke8"],
        // two knights that share neither file nor rank reach the same square (b1 and e4 -> d2)
        vec!["d3", "a6", "Nf3", "a5", "Ng5", "a4", "Ne4", "h6", "Ned2"],
    ];
    let mut r = Lcg(11);
    for game_no in 0..7 {
        let mut game = Game::new(1);
        let mut previous_labels: Vec<String> = Vec::new();
        for ply in 0..12 {
            let turn = game.board().turn();
            let listed = game.enumerated_candidate_moves();
            if listed.is_empty() { break; }
            let labels: Vec<String> = listed.iter().map(|(_, l)| l.clone()).collect();
            // a label names ONE move: two legal moves sharing a label make "plays precisely that move" unsatisfiable
            for i in 0..listed.len() { for j in 0..i {
                assert!(labels[i] != labels[j], "game {} ply {}: the legal moves {} and {} share the label `{}` (typing it cannot play both)",
                        game_no, ply, listed[j].0.to_uci(), listed[i].0.to_uci(), labels[i]);
            } }
            // labels of the other side in this position, and labels of the previous position, that are not labels now
            let mut other = game.board().clone();
            other.toggle_turn();
            // (asking the generator for the side NOT to move is only meaningful without a pending en-passant target)
            let other_side = if other.peek_en_passant_target().is_empty() {
                chess::chess_move::algebraic_notation::enumerate_candidate_moves_with_algebraic_notation(&mut other, turn.opposite(), &mut MoveGenerator::new())
            } else { Vec::new() };
            // ... and labels of this position with the case of their first letter flipped (`nf3`, `E4`, `Bxc3` for `bxc3`)
            let flipped: Vec<String> = labels.iter().map(|l| {
                let mut cs: Vec<char> = l.chars().collect();
                cs[0] = if cs[0].is_ascii_uppercase() { cs[0].to_ascii_lowercase() } else { cs[0].to_ascii_uppercase() };
                cs.into_iter().collect::<String>()
            }).filter(|l| !labels.contains(l)).take(8).collect();
            let near: Vec<String> = other_side.iter().map(|(_, l)| l.clone()).chain(previous_labels.iter().cloned())
                .filter(|l| !labels.contains(l)).take(12).chain(flipped.into_iter()).collect();
            for bad in near {
                let before = snapshot(game.board());
                let hist = game.last_move().map(|m| m.to_uci());
                let res = game.apply_chess_move_from_raw_algebraic_notation(bad.clone());
                assert!(res.is_err(), "game {} ply {}: `{}` is not a label of a legal move here but was accepted", game_no, ply, bad);
                assert!(snapshot(game.board()) == before && game.last_move().map(|m| m.to_uci()) == hist, "game {} ply {}: rejecting `{}` changed the game", game_no, ply, bad);
            }
            let pick = if game_no < crafted.len() && ply < crafted[game_no].len() {
                listed.iter().position(|(_, l)| l == crafted[game_no][ply]).unwrap_or_else(|| panic!("crafted label {} not listed at ply {}", crafted[game_no][ply], ply))
            } else { r.below(listed.len()) };
            let (expected_move, label) = listed[pick].clone();
            let mut expect = game.board().clone();
            expected_move.apply(&mut expect).unwrap();
            let played = game.apply_chess_move_from_raw_algebraic_notation(label.clone())
                .unwrap_or_else(|e| panic!("game {} ply {}: the listed label `{}` was rejected: {}", game_no, ply, label, e));
            assert!(played.to_uci() == expected_move.to_uci(), "game {} ply {}: `{}` played {} instead of {}", game_no, ply, label, played, expected_move);
            assert!(snapshot_position(game.board()) == snapshot_position(&expect), "game {} ply {}: board after `{}` is not the successor", game_no, ply, label);
            assert!(game.last_move().map(|m| m.to_uci()) == Some(expected_move.to_uci()), "game {} ply {}: `{}` not recorded", game_no, ply, label);
            game.board_mut().toggle_turn();
            previous_labels = labels;
        }
    }
}

/// C15 on SUPPLIED positions where the book's suggestion for the history is a move its piece could physically make
/// but that is not legal (the mover is in check / the piece is pinned): the engine must still answer with a legal
/// move of the position (added after seed r14_C15: a book reply matched without the king-safety filter)
#[test]
fn engine_move_is_legal_when_the_book_reply_is_only_pseudo_legal() {
    // White is in check from h4 (f2 is gone): of the book's first moves none is legal
    let mut checked = Board::starting_position();
    checked.remove(F2); checked.remove(D8); checked.put(H4, Piece::Queen, Color::Black).unwrap();
    // the d2 pawn is pinned by a bishop on a5: the book's d2d4 is not legal, neither at once nor as the reply to 1.e4 c6
    let mut pinned = Board::starting_position();
    pinned.remove(F8); pinned.put(A5, Piece::Bishop, Color::Black).unwrap();
    let mut illegal_suggestions = 0;
    for (name, b0, history) in [("White in check", checked.clone(), vec![]), ("pinned d-pawn", pinned.clone(), vec![]), ("pinned d-pawn after 1.e4 c6", pinned.clone(), vec![(E2, E4), (C7, C6)])] {
        for attempt in 0..12 {
            let mut game = Game::from_board(b0.clone(), 2);
            for (f, t) in history.iter() {
                game.apply_chess_move_by_from_to_coordinates(*f, *t).unwrap_or_else(|e| panic!("{}: history move rejected: {:?}", name, e));
                game.board_mut().toggle_turn();
            }
            let turn = game.board().turn();
            let legal = MoveGenerator::new().generate_moves(&mut game.board().clone(), turn);
            assert!(!legal.is_empty());
            if !legal.iter().any(|l| l.to_uci() == "d2d4") { illegal_suggestions += 1; }
            let before = snapshot(game.board());
            match game.select_waterfall_book_then_alpha_beta_best_move() {
                Ok(m) => assert!(legal.iter().any(|l| l.to_uci() == m.to_uci()), "{} attempt {}: the engine chose {} which is not a legal move of the supplied position", name, attempt, m),
                Err(e) => panic!("{} attempt {}: {} legal moves but the engine answered Err({})", name, attempt, legal.len(), e),
            }
            assert!(snapshot(game.board()) == before, "{} attempt {}: selecting a move changed the board", name, attempt);
        }
    }
    assert!(illegal_suggestions >= 36, "the positions do not make d2d4 illegal (vacuous)");
}
