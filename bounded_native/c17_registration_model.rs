// BOUNDED native twin for C17 (never counted as proved; runs only when the deductive check is undecided, and
// in the thorough tier): the Board-level registration API driven by pseudo-random operation sequences and
// compared with a reference multiset of full positions (placement, side to move) and a reference stack.
// Bound: 4000 sequences x 16 operations out of {register, unregister (of a registered position), toggle the
// side to move, move the white king e1<->d1, move the black king e8<->d8}.
include!("common.rs");
use common::bitboard::square::*;
use std::collections::HashMap;

#[test]
fn registration_counts_follow_the_reference_model() {
    let mut r = Lcg(7);
    for seq in 0..4000 {
        let mut b = setup(&[(E1, Piece::King, Color::White), (E8, Piece::King, Color::Black)], Color::White);
        let mut counts: HashMap<(bool, bool, bool), u8> = HashMap::new();   // (white king on d1, black king on d8, white to move)
        let mut stack: Vec<u8> = vec![1];
        let (mut wk, mut bk) = (false, false);
        let mut log = Vec::new();
        for step in 0..16 {
            let key = (wk, bk, b.turn() == Color::White);
            let op = r.below(5);
            match op {
                0 => {
                    let got = b.count_current_position();
                    let e = counts.entry(key).or_insert(0); *e += 1;
                    stack.push(*e);
                    log.push(format!("register{:?}", key));
                    assert_eq!(got, *e, "sequence {} step {}: {:?}", seq, step, log);
                }
                1 => {
                    if counts.get(&key).copied().unwrap_or(0) == 0 || stack.len() < 2 { continue; }
                    let got = b.uncount_current_position();
                    let e = counts.get_mut(&key).unwrap(); *e -= 1;
                    stack.pop();
                    log.push(format!("unregister{:?}", key));
                    assert_eq!(got, *e, "sequence {} step {}: {:?}", seq, step, log);
                }
                2 => { b.toggle_turn(); log.push("toggle".to_string()); }
                3 => {
                    let (f, t) = if wk { (D1, E1) } else { (E1, D1) };
                    b.remove(f).unwrap(); b.put(t, Piece::King, Color::White).unwrap(); wk = !wk;
                    log.push("white king".to_string());
                }
                _ => {
                    let (f, t) = if bk { (D8, E8) } else { (E8, D8) };
                    b.remove(f).unwrap(); b.put(t, Piece::King, Color::Black).unwrap(); bk = !bk;
                    log.push("black king".to_string());
                }
            }
            assert_eq!(b.max_seen_position_count(), *stack.last().unwrap(), "sequence {} step {}: reported count on the stack, {:?}", seq, step, log);
        }
    }
}

/// the game API registers positions: shuffling back to a position reports a draw exactly at its third occurrence
#[test]
fn third_occurrence_through_the_game_api_is_a_draw() {
    use chess::evaluate::GameEnding;
    use chess::game::game::Game;
    let b = setup(&[(A1, Piece::King, Color::White), (B1, Piece::Rook, Color::White), (H8, Piece::King, Color::Black), (G8, Piece::Rook, Color::Black)], Color::White);
    let mut game = Game::from_board(b, 1);
    let shuffle = [(A1, A2), (H8, H7), (A2, A1), (H7, H8)];
    for round in 1..=2 {
        for (i, (f, t)) in shuffle.iter().enumerate() {
            assert!(game.check_game_over_for_current_turn().is_none(), "round {} ply {}: no position has occurred three times yet", round, i);
            game.apply_chess_move_by_from_to_coordinates(*f, *t).unwrap();
            game.board_mut().toggle_turn();
        }
        let ending = game.check_game_over_for_current_turn();
        if round == 1 { assert!(ending.is_none(), "second occurrence of the start position is not a draw: {:?}", ending); }
        else { assert!(matches!(ending, Some(GameEnding::Draw)), "third occurrence of the start position must be reported as drawn: {:?}", ending); }
    }
}
