// BOUNDED native twin for C17 (never counted as proved; runs only when the deductive check is undecided, and
// in the thorough tier): the Board-level registration API driven by pseudo-random operation sequences and
// compared with a reference multiset of full positions (placement, side to move) and a reference stack.
// Bound: 4000 sequences x 16 operations out of {register, unregister (of a registered position), toggle the
// side to move, move the white king e1<->d1, move the black king e8<->d8}.
include!("common.rs");
use common::bitboard::square::*;
use std::collections::HashMap;

#[test]
fn registration_counts_follow_the_reference_model() {
    let mut r = Lcg(7);
    for seq in 0..4000 {
        let mut b = setup(&[(E1, Piece::King, Color::White), (E8, Piece::King, Color::Black)], Color::White);
        let mut counts: HashMap<(bool, bool, bool), u8> = HashMap::new();   // (white king on d1, black king on d8, white to move)
        let mut stack: Vec<u8> = vec![1];
        let (mut wk, mut bk) = (false, false);
        let mut log = Vec::new();
        for step in 0..16 {
            let key = (wk, bk, b.turn() == Color::White);
            let op = r.below(5);
            match op {
                0 => {
                    let got = b.count_current_position();
                    let e = counts.entry(key).or_insert(0); *e += 1;
                    stack.push(*e);
                    log.push(format!("register{:?}", key));
                    assert_eq!(got, *e, "sequence {} step {}: {:?}", seq, step, log);
                }
                1 => {
                    if counts.get(&key).copied().unwrap_or(0) == 0 || stack.len() < 2 { continue; }
                    let got = b.uncount_current_position();
                    let e = counts.get_mut(&key).unwrap(); *e -= 1;
                    stack.pop();
                    log.push(format!("unregister{:?}", key));
                    assert_eq!(got, *e, "sequence {} step {}: {:?}", seq, step, log);
                }
                2 => { b.toggle_turn(); log.push("toggle".to_string()); }
                3 => {
                    let (f, t) = if wk { (D1, E1) } else { (E1, D1) };
                    b.remove(f).unwrap(); b.put(t, Piece::King, Color::White).unwrap(); wk = !wk;
                    log.push("white king".to_string());
                }
                _ => {
                    let (f, t) = if bk { (D8, E8) } else { (E8, D8) };
                    b.remove(f).unwrap(); b.put(t, Piece::King, Color::Black).unwrap(); bk = !bk;
                    log.push("black king".to_string());
                }
            }
            assert_eq!(b.max_seen_position_count(), *stack.last().unwrap(), "sequence {} step {}: reported count on the stack, {:?}", seq, step, log);
        }
    }
}

/// the game API registers positions: shuffling back to a position reports a draw exactly at its third occurrence
#[test]
fn third_occurrence_through_the_game_api_is_a_draw() {
    use chess::evaluate::GameEnding;
    use chess::game::game::Game;
    let b = setup(&[(A1, Piece::King, Color::White), (B1, Piece::Rook, Color::White), (H8, Piece::King, Color::Black), (G8, Piece::Rook, Color::Black)], Color::White);
    let mut game = Game::from_board(b, 1);
    let shuffle = [(A1, A2), (H8, H7), (A2, A1), (H7, H8)];
    for round in 1..=2 {
        for (i, (f, t)) in shuffle.iter().enumerate() {
            assert!(game.check_game_over_for_current_turn().is_none(), "round {} ply {}: no position has occurred three times yet", round, i);
            game.apply_chess_move_by_from_to_coordinates(*f, *t).unwrap();
            game.board_mut().toggle_turn();
        }
        let ending = game.check_game_over_for_current_turn();
        if round == 1 { assert!(ending.is_none(), "second occurrence of the start position is not a draw: {:?}", ending); }
        else { assert!(matches!(ending, Some(GameEnding::Draw)), "third occurrence of the start position must be reported as drawn: {:?}", ending); }
    }
}

/// real play: shuffling walks from the starting position (mostly quiet officer moves, so positions recur; rook and
/// king moves lose castling rights, double steps create en-passant targets); after every ply the position is
/// registered and the reported count must equal the number of registrations of the SAME full position -
/// placement, side to move, castling rights, en-passant target -, a third of the plies are taken back with
/// unregister + undo
#[test]
fn recurrences_in_real_play_are_counted_per_full_position() {
    type Full = String;
    fn full(b: &Board) -> Full {
        let s = snapshot(b);
        format!("{:?}|{:?}|{}|{}", s.0, s.1, s.2, s.3)
    }
    let mut r = Lcg(2024);
    let mut recurrences = 0usize;
    for walk in 0..300 {
        let mut mg = MoveGenerator::new();
        let mut b = Board::starting_position();
        let mut counts: HashMap<Full, u8> = HashMap::new();
        let mut played: Vec<ChessMove> = Vec::new();
        let got = b.count_current_position();
        let e = counts.entry(full(&b)).or_insert(0); *e += 1;
        assert_eq!(got, *e, "walk {}: start position", walk);
        for ply in 0..40 {
            if !played.is_empty() && r.below(3) == 0 {
                // take the last ply back: unregister, then undo
                let key = full(&b);
                let got = b.uncount_current_position();
                let e = counts.get_mut(&key).unwrap(); *e -= 1;
                assert_eq!(got, *e, "walk {} ply {}: unregister after {:?}", walk, ply, played.iter().map(|m| m.to_uci()).collect::<Vec<_>>());
                let m = played.pop().unwrap();
                b.toggle_turn();
                m.undo(&mut b).unwrap();
                continue;
            }
            let turn = b.turn();
            let moves = mg.generate_moves(&mut b, turn);
            if moves.is_empty() { break; }
            // prefer quiet moves of knights, rooks and kings (they shuffle back and forth), sometimes anything
            let quiet: Vec<&ChessMove> = moves.iter().filter(|m| m.captures().is_none()
                && matches!(b.get(m.from_square()), Some((Piece::Knight, _)) | Some((Piece::Rook, _)) | Some((Piece::King, _)))).collect();
            // half of the time the piece this side moved last goes straight back (positions recur)
            let back: Option<ChessMove> = if played.len() >= 2 && r.below(2) == 0 {
                let last = &played[played.len() - 2];
                quiet.iter().find(|m| m.from_square() == last.to_square() && m.to_square() == last.from_square()).map(|m| (*m).clone())
            } else { None };
            let m: ChessMove = if let Some(m) = back { m } else if !quiet.is_empty() && r.below(8) != 0 { quiet[r.below(quiet.len())].clone() } else { moves[r.below(moves.len())].clone() };
            m.apply(&mut b).unwrap();
            b.toggle_turn();
            played.push(m);
            let key = full(&b);
            let before = counts.get(&key).copied().unwrap_or(0);
            if before >= 200 { break; }
            let got = b.count_current_position();
            let e = counts.entry(key).or_insert(0); *e += 1;
            if *e > 1 { recurrences += 1; }
            assert_eq!(got, *e, "walk {} ply {}: the position after {:?} has been registered {} time(s) (same placement, side to move, rights {:#06b}, en-passant target {:#x}) but the reported count is {}",
                       walk, ply, played.iter().map(|m| m.to_uci()).collect::<Vec<_>>(), *e, b.peek_castle_rights(), b.peek_en_passant_target().0, got);
        }
    }
    assert!(recurrences > 200, "the walks produced only {} recurrences (vacuous)", recurrences);
}

/// games played THROUGH THE GAME API (the way the game loops play: apply by coordinates, then pass the turn on):
/// shuffling walks in which irreversible moves (captures, pawn moves) are mixed in, so that recurring positions
/// also arise directly after such a move; after every ply the count the board reports must equal the number of
/// times this full position has arisen in the game, and the game is reported drawn exactly when that number is 3
/// (added after seed r12_C17: a table 'pruning' at irreversible moves dropped the entry just registered)
#[test]
fn game_api_counts_every_occurrence_also_right_after_irreversible_moves() {
    use chess::evaluate::GameEnding;
    use chess::game::game::Game;
    fn full(b: &Board) -> String {
        let s = snapshot(b);
        format!("{:?}|{:?}|{}|{}", s.0, s.1, s.2, s.3)
    }
    let mut r = Lcg(99);
    let (mut recurrences, mut after_irreversible, mut draws) = (0usize, 0usize, 0usize);
    for walk in 0..120 {
        let mut mg = MoveGenerator::new();
        let mut game = Game::new(1);
        let mut counts: HashMap<String, u8> = HashMap::new();
        counts.insert(full(game.board()), 1);
        let mut line: Vec<String> = Vec::new();
        let mut last: Vec<(Bitboard, Bitboard)> = Vec::new();
        let mut irreversible_key: Option<String> = None;
        for ply in 0..60 {
            let mut b = game.board().clone();
            let turn = b.turn();
            let moves = mg.generate_moves(&mut b, turn);
            if moves.is_empty() { break; }
            let quiet: Vec<&ChessMove> = moves.iter().filter(|m| m.captures().is_none()
                && matches!(b.get(m.from_square()), Some((Piece::Knight, _)) | Some((Piece::Rook, _)) | Some((Piece::King, _)) | Some((Piece::Bishop, _)))).collect();
            let back: Option<ChessMove> = if last.len() >= 2 && r.below(4) != 0 {
                let (lf, lt) = last[last.len() - 2];
                quiet.iter().find(|m| m.from_square() == lt && m.to_square() == lf).map(|m| (*m).clone())
            } else { None };
            // one ply in twelve is anything at all (pawn moves and captures included); the first ply of every second walk is a pawn's single step
            let m: ChessMove = if ply == 0 && walk % 2 == 0 {
                let singles: Vec<&ChessMove> = moves.iter().filter(|m| matches!(b.get(m.from_square()), Some((Piece::Pawn, _))) && (m.to_square().0 == m.from_square().0 << 8)).collect();
                singles[r.below(singles.len())].clone()
            } else if let Some(m) = back { m } else if !quiet.is_empty() && r.below(12) != 0 { quiet[r.below(quiet.len())].clone() } else { moves[r.below(moves.len())].clone() };
            let irreversible = m.captures().is_some() || matches!(b.get(m.from_square()), Some((Piece::Pawn, _)));
            let promo = matches!(m, ChessMove::PawnPromotion(_));
            if promo { break; }
            line.push(m.to_uci());
            game.apply_chess_move_by_from_to_coordinates(m.from_square(), m.to_square()).unwrap_or_else(|e| panic!("walk {}: {:?} rejected: {:?}", walk, line, e));
            game.board_mut().toggle_turn();
            last.push((m.from_square(), m.to_square()));
            let key = full(game.board());
            let e = counts.entry(key.clone()).or_insert(0); *e += 1;
            if irreversible { irreversible_key = Some(key.clone()); }
            if *e > 1 { recurrences += 1; if irreversible_key.as_ref() == Some(&key) { after_irreversible += 1; } }
            assert_eq!(game.board().max_seen_position_count(), *e,
                       "walk {}: after {:?} the position has arisen {} time(s) in this game, the board reports {}", walk, line, *e, game.board().max_seen_position_count());
            let ending = game.check_game_over_for_current_turn();
            if *e >= 3 {
                assert!(matches!(ending, Some(GameEnding::Draw)), "walk {}: third occurrence after {:?} must be reported as drawn, got {:?}", walk, line, ending);
                draws += 1;
                break;
            } else if game.board().halfmove_clock() < 100 {
                assert!(!matches!(ending, Some(GameEnding::Draw)) || { let mut bb = game.board().clone(); let t = bb.turn(); mg.generate_moves(&mut bb, t).is_empty() },
                        "walk {}: drawn after {:?} although no position has occurred three times (count {})", walk, line, *e);
            }
        }
    }
    assert!(recurrences > 100 && after_irreversible > 20 && draws > 20, "vacuous: {} recurrences, {} of the position right after an irreversible move, {} draws", recurrences, after_irreversible, draws);
}
