// BOUNDED native twin for C03 / C04 / C12 / C16 (never counted as proved): along pseudo-random legal walks every
// generated move is applied and compared, field by field, with the successor the Laws prescribe (a reference
// written from the rules in this file); undo must restore every observable; the representation invariants must
// hold in every state; the two counters must follow the rules.
// Bound: 70 walks x up to 80 plies from 7 starting positions (start, corner captures, castling-rich, promotion-rich, en-passant-rich, two openings).
include!("common.rs");
use common::bitboard::square::*;

type Snap = (Vec<Option<(Piece, Color)>>, Color, u8, u64, u8, u8);
fn snap(b: &Board) -> Snap {
    ((0..64).map(|i| b.get(Bitboard(1u64 << i))).collect(), b.turn(), b.peek_castle_rights(), b.peek_en_passant_target().0, b.halfmove_clock(), b.fullmove_clock())
}
fn lost_by_leaving(p: Piece, c: Color, f: usize) -> u8 {
    match (p, c, f) {
        (Piece::King, Color::White, 4) => 0b1010, (Piece::King, Color::Black, 60) => 0b0101,
        (Piece::Rook, Color::White, 0) => 0b0010, (Piece::Rook, Color::White, 7) => 0b1000,
        (Piece::Rook, Color::Black, 56) => 0b0001, (Piece::Rook, Color::Black, 63) => 0b0100,
        _ => 0,
    }
}
fn lost_by_capture(v: Option<(Piece, Color)>, t: usize) -> u8 {
    match (v, t) {
        (Some((Piece::Rook, Color::White)), 0) => 0b0010, (Some((Piece::Rook, Color::White)), 7) => 0b1000,
        (Some((Piece::Rook, Color::Black)), 56) => 0b0001, (Some((Piece::Rook, Color::Black)), 63) => 0b0100,
        _ => 0,
    }
}
/// the rules' successor of `s` under `m`
fn successor(s: &Snap, m: &ChessMove) -> Snap {
    let (mut sq, turn, rights, _ep, half, full) = s.clone();
    let f = m.from_square().0.trailing_zeros() as usize;
    let t = m.to_square().0.trailing_zeros() as usize;
    let (p, c) = sq[f].expect("a piece on the from-square");
    let mut new_rights = rights;
    let mut new_ep = 0u64;
    let mut zero_clock = p == Piece::Pawn;
    match m {
        ChessMove::Castle(_) => {
            let (rf, rt) = if t > f { (f + 3, f + 1) } else { (f - 4, f - 1) };
            sq[t] = sq[f]; sq[f] = None; sq[rt] = sq[rf]; sq[rf] = None;
            new_rights &= !lost_by_leaving(Piece::King, c, f);
        }
        ChessMove::EnPassant(_) => {
            let victim = (f / 8) * 8 + t % 8;
            sq[victim] = None; sq[t] = sq[f]; sq[f] = None;
            zero_clock = true;
        }
        ChessMove::PawnPromotion(pm) => {
            let captured = sq[t];
            if captured.is_some() { zero_clock = true; }
            new_rights &= !lost_by_capture(captured, t);
            sq[t] = Some((pm.promote_to_piece(), c)); sq[f] = None;
        }
        ChessMove::Standard(_) => {
            let captured = sq[t];
            if captured.is_some() { zero_clock = true; }
            new_rights &= !(lost_by_leaving(p, c, f) | lost_by_capture(captured, t));
            sq[t] = sq[f]; sq[f] = None;
            if p == Piece::Pawn && (t as i32 - f as i32).abs() == 16 { new_ep = 1u64 << ((f + t) / 2); }
        }
    }
    (sq, turn, new_rights, new_ep, if zero_clock { 0 } else { half + 1 }, full + 1)
}
fn invariants(name: &str, b: &Board) {
    let s = snap(b);
    for c in [Color::White, Color::Black] {
        assert_eq!(s.0.iter().filter(|x| **x == Some((Piece::King, c))).count(), 1, "{}: exactly one {:?} king", name, c);
    }
    for i in (0..8).chain(56..64) { assert!(!matches!(s.0[i], Some((Piece::Pawn, _))), "{}: pawn on a back rank", name); }
    for (bit, ksq, rsq, c) in [(0b1000u8, 4usize, 7usize, Color::White), (0b0010, 4, 0, Color::White), (0b0100, 60, 63, Color::Black), (0b0001, 60, 56, Color::Black)] {
        if s.2 & bit != 0 { assert!(s.0[ksq] == Some((Piece::King, c)) && s.0[rsq] == Some((Piece::Rook, c)), "{}: castling right {:#06b} held without king and rook at home", name, bit); }
    }
    // occupancy summaries agree with the per-square content
    let occ = b.occupied().0;
    for i in 0..64 { assert_eq!(occ & (1u64 << i) != 0, s.0[i].is_some(), "{}: occupancy bit {}", name, i); }
}

#[test]
fn apply_yields_the_rules_successor_undo_restores_invariants_hold() {
    let mut castle_rich = Board::new();
    for (sq, p, c) in [(E1, Piece::King, Color::White), (A1, Piece::Rook, Color::White), (H1, Piece::Rook, Color::White), (E8, Piece::King, Color::Black),
                       (A8, Piece::Rook, Color::Black), (H8, Piece::Rook, Color::Black), (B2, Piece::Bishop, Color::White), (G7, Piece::Bishop, Color::Black),
                       (D2, Piece::Queen, Color::White), (D7, Piece::Queen, Color::Black)] { castle_rich.put(sq, p, c).unwrap(); }
    castle_rich.set_turn(Color::White);
    let promo_rich = setup(&[(E1, Piece::King, Color::White), (E8, Piece::King, Color::Black), (A7, Piece::Pawn, Color::White), (C7, Piece::Pawn, Color::White),
        (B8, Piece::Rook, Color::Black), (H2, Piece::Pawn, Color::Black), (F2, Piece::Pawn, Color::Black), (G1, Piece::Knight, Color::White)], Color::White);
    let ep_rich = setup(&[(E1, Piece::King, Color::White), (E8, Piece::King, Color::Black), (A5, Piece::Pawn, Color::White), (C5, Piece::Pawn, Color::White), (H5, Piece::Pawn, Color::White),
        (B7, Piece::Pawn, Color::Black), (D7, Piece::Pawn, Color::Black), (G7, Piece::Pawn, Color::Black), (A4, Piece::Pawn, Color::Black), (B2, Piece::Pawn, Color::White)], Color::Black);
    // pawns that can capture unmoved corner rooks (with promotion), all four rights still held
    let mut corner = Board::new();
    for (sq, p, c) in [(E1, Piece::King, Color::White), (A1, Piece::Rook, Color::White), (H1, Piece::Rook, Color::White), (E8, Piece::King, Color::Black),
                       (A8, Piece::Rook, Color::Black), (H8, Piece::Rook, Color::Black), (B7, Piece::Pawn, Color::White), (G7, Piece::Pawn, Color::White),
                       (B2, Piece::Pawn, Color::Black), (G2, Piece::Pawn, Color::Black), (D4, Piece::Knight, Color::White), (D5, Piece::Knight, Color::Black)] { corner.put(sq, p, c).unwrap(); }
    corner.set_turn(Color::White);
    let starts = vec![("start", Board::starting_position()), ("corner captures", corner), ("castling-rich", castle_rich), ("promotion-rich", promo_rich), ("en-passant-rich", ep_rich),
                      ("opening 2", opening(2, 10)), ("opening 7", opening(7, 16))];
    let mut r = Lcg(23);
    let mut mg = MoveGenerator::new();
    for walk in 0..70 {
        let (sname, b0) = &starts[walk % starts.len()];
        let mut b = b0.clone();
        for ply in 0..80 {
            let name = format!("{} walk {} ply {}", sname, walk, ply);
            invariants(&name, &b);
            let turn = b.turn();
            let moves = mg.generate_moves(&mut b, turn);
            if moves.is_empty() || b.halfmove_clock() > 200 || b.fullmove_clock() > 200 { break; }
            let before = snap(&b);
            let key_before = b.current_position_hash();
            // every move of the position: apply, compare with the rules' successor, undo, compare with before
            for m in moves.iter() {
                m.apply(&mut b).unwrap_or_else(|e| panic!("{}: apply of the legal move {} failed: {:?}", name, m, e));
                let got = snap(&b);
                let want = successor(&before, m);
                assert!(got == want, "{}: after {} the position differs from the rules' successor\\n got  {:?}\\n want {:?}", name, m, (&got.1, got.2, got.3, got.4, got.5), (&want.1, want.2, want.3, want.4, want.5));
                m.undo(&mut b).unwrap_or_else(|e| panic!("{}: undo of {} failed: {:?}", name, m, e));
                assert!(snap(&b) == before && b.current_position_hash() == key_before, "{}: undo of {} did not restore the position", name, m);
            }
            let m = moves[r.below(moves.len())].clone();
            m.apply(&mut b).unwrap();
            b.toggle_turn();
        }
    }
}
