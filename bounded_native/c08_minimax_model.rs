// BOUNDED native twin for C08 (never counted as proved): the reported score equals a straightforward
// reference minimax (unpruned, uncached) and the returned move attains it, for a fresh context and for one
// context reused along a game.  Bound: 6 opening positions + 3 endgames at depths 1..3 (fresh context), and
// 4 games of 8 plies at depth 3 with one reused context.
include!("common.rs");
use chess::alpha_beta_searcher::{alpha_beta_search, SearchContext};
use chess::evaluate;
use common::bitboard::square::*;

fn minimax(board: &mut Board, mg: &mut MoveGenerator, depth: u8) -> i16 {
    let turn = board.turn();
    if depth == 0 { return evaluate::score(board, mg, turn, depth); }
    let candidates = mg.generate_moves(board, turn);
    if candidates.is_empty() { return evaluate::score(board, mg, turn, depth); }
    let mut best: Option<i16> = None;
    for m in candidates.iter() {
        m.apply(board).unwrap(); board.toggle_turn();
        let v = minimax(board, mg, depth - 1);
        m.undo(board).unwrap(); board.toggle_turn();
        best = Some(match best { None => v, Some(b) => if turn == Color::White { b.max(v) } else { b.min(v) } });
    }
    best.unwrap()
}

fn check(name: &str, b: &mut Board, ctx: &mut SearchContext, depth: u8) -> Option<ChessMove> {
    let turn = b.turn();
    if MoveGenerator::new().generate_moves(b, turn).is_empty() { return None; }
    let exact = minimax(b, &mut MoveGenerator::new(), depth);
    let best = alpha_beta_search(ctx, b, &mut MoveGenerator::new()).unwrap();
    let reported = ctx.last_score().unwrap();
    assert_eq!(reported, exact, "{} depth {}: reported score vs exact minimax", name, depth);
    best.apply(b).unwrap(); b.toggle_turn();
    let child = minimax(b, &mut MoveGenerator::new(), depth - 1);
    best.undo(b).unwrap(); b.toggle_turn();
    assert_eq!(child, exact, "{} depth {}: the returned move {} does not attain the value", name, depth, best);
    Some(best)
}

#[test]
fn fresh_context_reports_exact_minimax() {
    let mut ps: Vec<(String, Board)> = (0..6).map(|g| (format!("opening {}", g), opening(g, 6 + g as usize))).collect();
    ps.push(("KRk".into(), setup(&[(A1, Piece::King, Color::White), (H1, Piece::Rook, Color::White), (E8, Piece::King, Color::Black)], Color::White)));
    ps.push(("mate in one".into(), setup(&[(C2, Piece::King, Color::White), (B8, Piece::Queen, Color::White), (A2, Piece::King, Color::Black)], Color::White)));
    ps.push(("promotion race".into(), setup(&[(E1, Piece::King, Color::White), (A7, Piece::Pawn, Color::White), (H8, Piece::King, Color::Black), (B2, Piece::Pawn, Color::Black)], Color::Black)));
    for (name, b0) in ps {
        for depth in 1u8..=3 {
            let mut b = b0.clone();
            check(&name, &mut b, &mut SearchContext::new(depth), depth);
        }
    }
}

#[test]
fn reused_context_reports_exact_minimax() {
    for game in 0..4u64 {
        let mut b = opening(game, 8);
        let mut ctx = SearchContext::new(3);
        for ply in 0..8 {
            let name = format!("game {} ply {}", game, ply);
            match check(&name, &mut b, &mut ctx, 3) {
                Some(m) => { m.apply(&mut b).unwrap(); b.toggle_turn(); }
                None => break,
            }
        }
    }
}
