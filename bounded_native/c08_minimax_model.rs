// BOUNDED native twin for C08 (never counted as proved): the reported score equals a straightforward
// reference minimax (unpruned, uncached) and the returned move attains it, for a fresh context and for one
// context reused along a game.  Bound: 6 opening positions + 3 endgames at depths 1..3 (fresh context), and
// 4 games of 8 plies at depth 3 with one reused context; one context through 16 unrelated positions (values far
// apart in both directions, both sides to move) at depths 2 and 3.
include!("common.rs");
use chess::alpha_beta_searcher::{alpha_beta_search, SearchContext};
use chess::evaluate;
use common::bitboard::square::*;

fn minimax(board: &mut Board, mg: &mut MoveGenerator, depth: u8) -> i16 {
    let turn = board.turn();
    if depth == 0 { return evaluate::score(board, mg, turn, depth); }
    let candidates = mg.generate_moves(board, turn);
    if candidates.is_empty() { return evaluate::score(board, mg, turn, depth); }
    let mut best: Option<i16> = None;
    for m in candidates.iter() {
        m.apply(board).unwrap(); board.toggle_turn();
        let v = minimax(board, mg, depth - 1);
        m.undo(board).unwrap(); board.toggle_turn();
        best = Some(match best { None => v, Some(b) => if turn == Color::White { b.max(v) } else { b.min(v) } });
    }
    best.unwrap()
}

fn check(name: &str, b: &mut Board, ctx: &mut SearchContext, depth: u8) -> Option<ChessMove> {
    let turn = b.turn();
    if MoveGenerator::new().generate_moves(b, turn).is_empty() { return None; }
    let exact = minimax(b, &mut MoveGenerator::new(), depth);
    let best = alpha_beta_search(ctx, b, &mut MoveGenerator::new()).unwrap();
    let reported = ctx.last_score().unwrap();
    assert_eq!(reported, exact, "{} depth {}: reported score vs exact minimax", name, depth);
    best.apply(b).unwrap(); b.toggle_turn();
    let child = minimax(b, &mut MoveGenerator::new(), depth - 1);
    best.undo(b).unwrap(); b.toggle_turn();
    assert_eq!(child, exact, "{} depth {}: the returned move {} does not attain the value", name, depth, best);
    Some(best)
}

#[test]
fn fresh_context_reports_exact_minimax() {
    let mut ps: Vec<(String, Board)> = (0..6).map(|g| (format!("opening {}", g), opening(g, 6 + g as usize))).collect();
    ps.push(("KRk".into(), setup(&[(A1, Piece::King, Color::White), (H1, Piece::Rook, Color::White), (E8, Piece::King, Color::Black)], Color::White)));
    ps.push(("mate in one".into(), setup(&[(C2, Piece::King, Color::White), (B8, Piece::Queen, Color::White), (A2, Piece::King, Color::Black)], Color::White)));
    ps.push(("promotion race".into(), setup(&[(E1, Piece::King, Color::White), (A7, Piece::Pawn, Color::White), (H8, Piece::King, Color::Black), (B2, Piece::Pawn, Color::Black)], Color::Black)));
    for (name, b0) in ps {
        for depth in 1u8..=3 {
            let mut b = b0.clone();
            check(&name, &mut b, &mut SearchContext::new(depth), depth);
        }
    }
}

#[test]
fn reused_context_reports_exact_minimax() {
    for game in 0..4u64 {
        let mut b = opening(game, 8);
        let mut ctx = SearchContext::new(3);
        for ply in 0..8 {
            let name = format!("game {} ply {}", game, ply);
            match check(&name, &mut b, &mut ctx, 3) {
                Some(m) => { m.apply(&mut b).unwrap(); b.toggle_turn(); }
                None => break,
            }
        }
    }
}

/// "all prior sequences of searches performed with the same context": one context taken through unrelated
/// positions whose values lie far apart in both directions, for both sides to move
#[test]
fn context_reused_across_unrelated_positions_reports_exact_minimax() {
    let wq = |turn| setup(&[(E1, Piece::King, Color::White), (D1, Piece::Queen, Color::White), (E8, Piece::King, Color::Black), (H7, Piece::Pawn, Color::Black)], turn);
    let bq = |turn| setup(&[(E1, Piece::King, Color::White), (H2, Piece::Pawn, Color::White), (E8, Piece::King, Color::Black), (D8, Piece::Queen, Color::Black)], turn);
    let wr = |turn| setup(&[(E1, Piece::King, Color::White), (A1, Piece::Rook, Color::White), (A2, Piece::Pawn, Color::White), (E8, Piece::King, Color::Black), (B8, Piece::Knight, Color::Black)], turn);
    let br = |turn| setup(&[(E1, Piece::King, Color::White), (B1, Piece::Knight, Color::White), (E8, Piece::King, Color::Black), (A8, Piece::Rook, Color::Black), (A7, Piece::Pawn, Color::Black)], turn);
    let eq = |turn| setup(&[(E1, Piece::King, Color::White), (C2, Piece::Pawn, Color::White), (E8, Piece::King, Color::Black), (F7, Piece::Pawn, Color::Black)], turn);
    use Color::{Black as B, White as W};
    let seq: Vec<(&str, Board)> = vec![
        ("white queen, W", wq(W)), ("black queen, W", bq(W)), ("white queen, B", wq(B)), ("black queen, B", bq(B)),
        ("white rook, W", wr(W)), ("black rook, B", br(B)), ("pawns, W", eq(W)),
        ("black queen, W (2)", bq(W)), ("white queen, W (2)", wq(W)), ("black queen, B (2)", bq(B)), ("white queen, B (2)", wq(B)),
        ("black rook, W", br(W)), ("white rook, B", wr(B)), ("pawns, B", eq(B)), ("white queen, W (3)", wq(W)), ("black rook, B (2)", br(B)),
    ];
    for depth in 2u8..=3 {
        let mut ctx = SearchContext::new(depth);
        for (i, (name, b0)) in seq.iter().enumerate() {
            let mut b = b0.clone();
            check(&format!("reused context, search {} ({})", i + 1, name), &mut b, &mut ctx, depth);
        }
    }
}

/// forced mates inside the horizon, one context reused along the game: the same mated position is met at different
/// remaining depths in successive searches, and the mate score depends on the remaining depth (quicker mates are
/// better) - so nothing keyed by the position alone may carry a mate score from one search to the next
/// (added after seed r12_C08: a leaf-score memo keyed without the depth)
#[test]
fn reused_context_along_forced_mates_reports_exact_minimax() {
    let games: Vec<(&str, Board)> = vec![
        ("rook ladder, White mates in two", setup(&[(G1, Piece::King, Color::White), (A6, Piece::Rook, Color::White), (B5, Piece::Rook, Color::White), (E8, Piece::King, Color::Black)], Color::White)),
        ("rook ladder, Black mates in two", setup(&[(B8, Piece::King, Color::Black), (H3, Piece::Rook, Color::Black), (G4, Piece::Rook, Color::Black), (D1, Piece::King, Color::White)], Color::Black)),
        ("back rank, queen sacrifice", setup(&[(G1, Piece::King, Color::White), (E1, Piece::Rook, Color::White), (E2, Piece::Queen, Color::White),
                                               (G8, Piece::King, Color::Black), (F7, Piece::Pawn, Color::Black), (G7, Piece::Pawn, Color::Black), (H7, Piece::Pawn, Color::Black), (A8, Piece::Rook, Color::Black)], Color::White)),
        ("queen and king, mate in two", setup(&[(F6, Piece::King, Color::White), (A1, Piece::Queen, Color::White), (H8, Piece::King, Color::Black)], Color::White)),
        ("defender to move in a mating net", setup(&[(G1, Piece::King, Color::White), (A6, Piece::Rook, Color::White), (B7, Piece::Rook, Color::White), (E8, Piece::King, Color::Black)], Color::Black)),
    ];
    let mut mates_met = 0;
    for (name, b0) in games.iter() {
        for depth in [3u8, 4u8] {
            let mut b = b0.clone();
            let mut ctx = SearchContext::new(depth);
            for ply in 0..6 {
                let label = format!("{} (depth {}, ply {})", name, depth, ply);
                match check(&label, &mut b, &mut ctx, depth) {
                    Some(m) => { m.apply(&mut b).unwrap(); b.toggle_turn(); }
                    None => { mates_met += 1; break; }
                }
            }
        }
    }
    assert!(mates_met >= 6, "only {} of the games ended within six plies (vacuous)", mates_met);
}
