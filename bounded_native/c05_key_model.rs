// BOUNDED native twin for C05 (never counted as proved): along pseudo-random legal walks with interleaved
// undos, the position key always equals the key of the same position set up directly (put + rights + target),
// and undo restores the key.
// Bound: 40 walks x up to 60 plies from the start position and from a castling-rich position; every 3rd ply is
// undone and replayed.
include!("common.rs");
use common::bitboard::square::*;

fn direct(b: &Board) -> Board {
    let mut d = Board::new();
    for i in 0..64 { if let Some((p, c)) = b.get(Bitboard(1u64 << i)) { d.put(Bitboard(1u64 << i), p, c).unwrap(); } }
    d.lose_castle_rights(0b1111 & !b.peek_castle_rights());
    if !b.peek_en_passant_target().is_empty() { d.push_en_passant_target(b.peek_en_passant_target()); }
    d
}

#[test]
fn key_is_a_function_of_the_position_along_walks_with_undo() {
    let mut r = Lcg(5);
    let mut mg = MoveGenerator::new();
    let castling = setup_with_rights(&[(E1, Piece::King, Color::White), (A1, Piece::Rook, Color::White), (H1, Piece::Rook, Color::White),
        (E8, Piece::King, Color::Black), (A8, Piece::Rook, Color::Black), (H8, Piece::Rook, Color::Black),
        (B2, Piece::Bishop, Color::White), (G7, Piece::Bishop, Color::Black), (D4, Piece::Pawn, Color::White), (E5, Piece::Pawn, Color::Black)]);
    for walk in 0..40 {
        let mut b = if walk % 2 == 0 { Board::starting_position() } else { castling.clone() };
        for ply in 0..60 {
            assert_eq!(b.current_position_hash(), direct(&b).current_position_hash(), "walk {} ply {}: key differs from the key of the same position set up directly", walk, ply);
            let turn = b.turn();
            let moves = mg.generate_moves(&mut b, turn);
            if moves.is_empty() { break; }
            let m = moves[r.below(moves.len())].clone();
            let before = b.current_position_hash();
            m.apply(&mut b).unwrap();
            if ply % 3 == 2 {
                m.undo(&mut b).unwrap();
                assert_eq!(b.current_position_hash(), before, "walk {} ply {}: undo of {} did not restore the key", walk, ply, m);
                m.apply(&mut b).unwrap();
            }
            b.toggle_turn();
        }
    }
}

fn setup_with_rights(men: &[(Bitboard, Piece, Color)]) -> Board {
    let mut b = Board::new();
    for (sq, p, c) in men { b.put(*sq, *p, *c).unwrap(); }
    b.set_turn(Color::White);
    b
}
