// BOUNDED native twin for C10 (never counted as proved): MoveGenerator::count_positions returns the sum over
// k = 1..d+1 of the number of legal move sequences of length k (20, 420, 9322, 206603 from the initial position),
// for rayon pools of several sizes and for fresh and reused generators.
// Bound: 7 positions (incl. a stalemated and a checkmated root) x depths 0..3 (start position) / 0..2 (others) x pools {1, 2, 3, 4, 7, 16}.
include!("common.rs");
use common::bitboard::square::*;

fn reference(b: &mut Board, mg: &mut MoveGenerator, color: Color, depth: u8) -> usize {
    let moves = mg.generate_moves(b, color);
    let mut n = moves.len();
    if depth == 0 { return n; }
    for m in moves.iter() {
        m.apply(b).unwrap();
        n += reference(b, mg, color.opposite(), depth - 1);
        m.undo(b).unwrap();
    }
    n
}

#[test]
fn count_positions_matches_the_reference_count_for_every_pool_size() {
    let start = Board::starting_position();
    let known = [20usize, 420, 9322, 206603];
    for (d, k) in known.iter().enumerate() {
        assert_eq!(reference(&mut start.clone(), &mut MoveGenerator::new(), Color::White, d as u8), *k, "reference perft, depth {}", d);
    }
    let positions: Vec<(String, Board, u8)> = vec![
        ("start".into(), start, 3),
        ("opening 3".into(), opening(3, 9), 2),
        ("opening 5 (48-ish moves)".into(), opening(5, 14), 2),
        ("KRPkr".into(), setup(&[(E1, Piece::King, Color::White), (A1, Piece::Rook, Color::White), (B7, Piece::Pawn, Color::White),
            (E8, Piece::King, Color::Black), (H8, Piece::Rook, Color::Black)], Color::White), 2),
        // roots without a legal move (the count is 0 at every depth) and one ply before such a position
        ("stalemated root".into(), setup(&[(A8, Piece::King, Color::Black), (B6, Piece::Queen, Color::White), (C7, Piece::King, Color::White)], Color::Black), 2),
        ("checkmated root".into(), setup(&[(A8, Piece::King, Color::Black), (A7, Piece::Queen, Color::White), (B6, Piece::King, Color::White)], Color::Black), 2),
        ("mate in one".into(), setup(&[(A8, Piece::King, Color::Black), (H7, Piece::Queen, Color::White), (B6, Piece::King, Color::White)], Color::White), 2),
    ];
    for (name, b0, max_depth) in positions {
        let color = b0.turn();
        for depth in 0..=max_depth {
            let expect = reference(&mut b0.clone(), &mut MoveGenerator::new(), color, depth);
            for threads in [1usize, 2, 3, 4, 7, 16] {
                let pool = rayon::ThreadPoolBuilder::new().num_threads(threads).build().unwrap();
                let mut reused = MoveGenerator::new();
                for round in 0..2 {
                    let mut b = b0.clone();
                    let before = snapshot(&b);
                    let got = pool.install(|| reused.count_positions(depth, &mut b, color));
                    assert_eq!(got, expect, "{} depth {} with {} threads (round {}): count_positions vs reference", name, depth, threads, round);
                    assert!(snapshot(&b) == before, "{} depth {}: count_positions changed the board", name, depth);
                }
            }
        }
    }
}

/// "any state of the generator's caches": ONE generator counts a chain of related positions - each placement for the
/// side to move AND for the other side (where that is a consistent position), a position and its successors, the same
/// position at several depths, in two rounds - and every figure must equal the reference count of a fresh computation
/// (added after seed r14_C10: a subtree-count memo keyed by position key and depth without the side to move)
#[test]
fn one_generator_counts_related_positions_for_both_sides() {
    let mut roots: Vec<(String, Board)> = vec![
        ("after 1.Nf3".into(), { let mut b = Board::starting_position(); ChessMove::Standard(chess::chess_move::standard::StandardChessMove::new(G1, F3, None)).apply(&mut b).unwrap(); b }),
        ("opening 2".into(), opening(2, 6)),
        ("opening 4".into(), opening(4, 7)),
        ("KRPkr".into(), setup(&[(E1, Piece::King, Color::White), (A1, Piece::Rook, Color::White), (B7, Piece::Pawn, Color::White),
            (E8, Piece::King, Color::Black), (H8, Piece::Rook, Color::Black)], Color::White)),
    ];
    // successors of the first root, so that positions met inside one count come back as roots of the next
    let first = roots[0].1.clone();
    for (i, m) in MoveGenerator::new().generate_moves(&mut first.clone(), Color::Black).iter().take(3).enumerate() {
        let mut b = first.clone();
        m.apply(&mut b).unwrap();
        roots.push((format!("after 1.Nf3 and reply {}", i), b));
    }
    let pool = rayon::ThreadPoolBuilder::new().num_threads(4).build().unwrap();
    let mut reused = MoveGenerator::new();
    let mut checked = 0;
    for round in 0..2 {
        for (name, b0) in roots.iter() {
            for color in [Color::Black, Color::White] {
                // skip inconsistent queries: the side NOT to move must not be in check, and a pending en-passant target belongs to the other side
                let mut probe = b0.clone();
                if chess::evaluate::player_is_in_check(&mut probe, &mut MoveGenerator::new(), color.opposite()) || !b0.peek_en_passant_target().is_empty() { continue; }
                for depth in 0u8..=2 {
                    let expect = reference(&mut b0.clone(), &mut MoveGenerator::new(), color, depth);
                    let mut b = b0.clone();
                    let got = pool.install(|| reused.count_positions(depth, &mut b, color));
                    assert_eq!(got, expect, "{} with {:?} to move, depth {} (round {}, one generator reused): count_positions vs a fresh reference count", name, color, depth, round);
                    checked += 1;
                }
            }
        }
    }
    assert!(checked >= 60, "only {} counts compared (vacuous)", checked);
}
