// BOUNDED native twin for C11 (never counted as proved): the attack map the generator reports for a single
// white piece among pseudo-random blockers equals the squares reached by walking the Laws' geometry (rays up
// to and including the first blocker for rook / bishop / queen; the eight knight jumps; the eight king steps;
// the two pawn capture squares), never wrapping around a board edge.
// Bound: 5 piece kinds + pawns x 64 squares x 24 pseudo-random blocker sets (0..12 black knights).
include!("common.rs");

fn walk(occ: u64, sq: i32, dirs: &[(i32, i32)], sliding: bool) -> u64 {
    let mut out = 0u64;
    for (df, dr) in dirs {
        let (mut f, mut r) = (sq % 8 + df, sq / 8 + dr);
        while (0..8).contains(&f) && (0..8).contains(&r) {
            let bit = 1u64 << (r * 8 + f);
            out |= bit;
            if !sliding || occ & bit != 0 { break; }
            f += df; r += dr;
        }
    }
    out
}

#[test]
fn attack_maps_equal_the_walked_geometry() {
    let rook = [(1, 0), (-1, 0), (0, 1), (0, -1)];
    let bishop = [(1, 1), (1, -1), (-1, 1), (-1, -1)];
    let queen = [(1, 0), (-1, 0), (0, 1), (0, -1), (1, 1), (1, -1), (-1, 1), (-1, -1)];
    let knight = [(1, 2), (2, 1), (2, -1), (1, -2), (-1, -2), (-2, -1), (-2, 1), (-1, 2)];
    let mut r = Lcg(3);
    let mut mg = MoveGenerator::new();
    for sq in 0..64i32 {
        for round in 0..24 {
            let nblock = r.below(13);
            let mut blockers = 0u64;
            for _ in 0..nblock { let b = r.below(64) as i32; if b != sq { blockers |= 1u64 << b; } }
            for (piece, dirs, sliding) in [(Piece::Rook, &rook[..], true), (Piece::Bishop, &bishop[..], true), (Piece::Queen, &queen[..], true),
                                           (Piece::Knight, &knight[..], false), (Piece::King, &queen[..], false)] {
                let mut b = Board::new();
                b.put(Bitboard(1u64 << sq), piece, Color::White).unwrap();
                for i in 0..64 { if blockers & (1u64 << i) != 0 { b.put(Bitboard(1u64 << i), Piece::Knight, Color::Black).unwrap(); } }
                b.lose_castle_rights(0b1111);
                let got = mg.get_attack_targets(&b, Color::White).0 & !(1u64 << sq);
                let expect = walk(blockers | (1u64 << sq), sq, dirs, sliding);
                assert!(got == expect, "{:?} on square {} (round {}), blockers {:#018x}: attack map {:#018x}, geometry says {:#018x}", piece, sq, round, blockers, got, expect);
            }
            if round == 0 && (8..56).contains(&sq) {
                for (color, dr) in [(Color::White, 1), (Color::Black, -1)] {
                    let mut b = Board::new();
                    b.put(Bitboard(1u64 << sq), Piece::Pawn, color).unwrap();
                    b.lose_castle_rights(0b1111);
                    let got = mg.get_attack_targets(&b, color).0 & !(1u64 << sq);
                    let expect = walk(0, sq, &[(1, dr), (-1, dr)], false);
                    assert!(got == expect, "{:?} pawn on square {}: attack map {:#018x}, geometry says {:#018x}", color, sq, got, expect);
                }
            }
        }
    }
}

/// the squares a slider's rays pass through before their last square (the blockers that matter)
fn relevance(sq: i32, dirs: &[(i32, i32)]) -> u64 {
    let mut out = 0u64;
    for (df, dr) in dirs {
        let (mut f, mut r) = (sq % 8 + df, sq / 8 + dr);
        while (0..8).contains(&(f + df)) && (0..8).contains(&(r + dr)) {
            out |= 1u64 << (r * 8 + f);
            f += df; r += dr;
        }
    }
    out
}

/// EXHAUSTIVE over the blockers that matter: every subset of the relevance mask, every square, rook and bishop
/// (102,400 + 5,248 cases) - the same space the magic lookup tables are indexed by
#[test]
fn slider_attack_maps_equal_the_walked_geometry_for_every_relevant_blocker_set() {
    let rook = [(1, 0), (-1, 0), (0, 1), (0, -1)];
    let bishop = [(1, 1), (1, -1), (-1, 1), (-1, -1)];
    let mut mg = MoveGenerator::new();
    for (piece, dirs) in [(Piece::Rook, &rook[..]), (Piece::Bishop, &bishop[..])] {
        for sq in 0..64i32 {
            let mask = relevance(sq, dirs);
            let mut subset = 0u64;
            loop {
                let mut b = Board::new();
                b.put(Bitboard(1u64 << sq), piece, Color::White).unwrap();
                let mut bits = subset;
                while bits != 0 { let i = bits.trailing_zeros(); b.put(Bitboard(1u64 << i), Piece::Knight, Color::Black).unwrap(); bits &= bits - 1; }
                b.lose_castle_rights(0b1111);
                let got = mg.get_attack_targets(&b, Color::White).0 & !(1u64 << sq);
                let expect = walk(subset | (1u64 << sq), sq, dirs, true);
                assert!(got == expect, "{:?} on square {}, blockers {:#018x}: attack map {:#018x}, geometry says {:#018x}", piece, sq, subset, got, expect);
                subset = subset.wrapping_sub(mask) & mask;   // Carry-Rippler: next subset of mask
                if subset == 0 { break; }
            }
        }
    }
}
