// BOUNDED native twin for C01 / C02 (never counted as proved): leaf counts of the legal move tree (generate_moves
// + apply + undo, NOT count_positions) against the published perft figures of five standard test positions, with
// a fresh generator and with one generator reused across all positions and depths (C02: answers must not depend
// on what the generator was asked before).
// Bound: start position depths 1..5, Kiwipete 1..3, "position 3" 1..4, "position 4" 1..3, "position 5" 1..3.
include!("common.rs");

fn from_fen(placement: &str, white_to_move: bool, rights: &str) -> Board {
    let mut b = Board::new();
    let mut rank = 7i32;
    let mut file = 0i32;
    for ch in placement.chars() {
        match ch {
            '/' => { rank -= 1; file = 0; }
            '1'..='8' => file += ch as i32 - '0' as i32,
            _ => {
                let color = if ch.is_uppercase() { Color::White } else { Color::Black };
                let piece = match ch.to_ascii_lowercase() { 'p' => Piece::Pawn, 'n' => Piece::Knight, 'b' => Piece::Bishop, 'r' => Piece::Rook, 'q' => Piece::Queen, _ => Piece::King };
                b.put(Bitboard(1u64 << (rank * 8 + file)), piece, color).unwrap();
                file += 1;
            }
        }
    }
    let mut keep = 0u8;
    for ch in rights.chars() { keep |= match ch { 'K' => 0b1000, 'k' => 0b0100, 'Q' => 0b0010, 'q' => 0b0001, _ => 0 }; }
    b.lose_castle_rights(0b1111 & !keep);
    b.set_turn(if white_to_move { Color::White } else { Color::Black });
    b
}

fn perft(b: &mut Board, mg: &mut MoveGenerator, color: Color, depth: u8) -> u64 {
    let moves = mg.generate_moves(b, color);
    if depth == 1 { return moves.len() as u64; }
    let mut n = 0;
    for m in moves.iter() {
        m.apply(b).unwrap();
        n += perft(b, mg, color.opposite(), depth - 1);
        m.undo(b).unwrap();
    }
    n
}

fn suite() -> Vec<(&'static str, Board, Vec<u64>)> {
    vec![
        ("start", Board::starting_position(), vec![20, 400, 8902, 197281, 4865609]),
        ("kiwipete", from_fen("r3k2r/p1ppqpb1/bn2pnp1/3PN3/1p2P3/2N2Q1p/PPPBBPPP/R3K2R", true, "KQkq"), vec![48, 2039, 97862]),
        ("position 3", from_fen("8/2p5/3p4/KP5r/1R3p1k/8/4P1P1/8", true, ""), vec![14, 191, 2812, 43238]),
        ("position 4", from_fen("r3k2r/Pppp1ppp/1b3nbN/nP6/BBP1P3/q4N2/Pp1P2PP/R2Q1RK1", true, "kq"), vec![6, 264, 9467]),
        ("position 5", from_fen("rnbq1k1r/pp1Pbppp/2p5/8/2B5/8/PPP1NnPP/RNBQK2R", true, "KQ"), vec![44, 1486, 62379]),
    ]
}

#[test]
fn leaf_counts_match_the_published_perft_figures_with_a_fresh_generator() {
    for (name, b0, figures) in suite() {
        for (i, expect) in figures.iter().enumerate() {
            let mut b = b0.clone();
            let before = snapshot(&b);
            let got = perft(&mut b, &mut MoveGenerator::new(), b0.turn(), i as u8 + 1);
            assert_eq!(got, *expect, "{} depth {}: leaf count", name, i + 1);
            assert!(snapshot(&b) == before, "{} depth {}: the walk did not restore the board", name, i + 1);
        }
    }
}

#[test]
fn leaf_counts_do_not_depend_on_what_the_generator_was_asked_before() {
    let mut reused = MoveGenerator::new();
    for round in 0..2 {
        for (name, b0, figures) in suite() {
            for (i, expect) in figures.iter().enumerate().take(3) {
                let got = perft(&mut b0.clone(), &mut reused, b0.turn(), i as u8 + 1);
                assert_eq!(got, *expect, "{} depth {} (round {}, reused generator): leaf count", name, i + 1, round);
            }
        }
    }
}

/// en passant on every pair of adjacent files, both colours (kings far away: no pin can interfere)
#[test]
fn en_passant_is_offered_on_every_file_pair() {
    use chess::chess_move::standard::StandardChessMove;
    for capturer_file in 0..8i32 { for df in [-1i32, 1] {
        let pusher_file = capturer_file + df;
        if !(0..8).contains(&pusher_file) { continue; }
        for white_captures in [true, false] {
            let (cap_rank, push_from, push_to, target_rank) = if white_captures { (4, 6, 4, 5) } else { (3, 1, 3, 2) };
            let (cc, pc) = if white_captures { (Color::White, Color::Black) } else { (Color::Black, Color::White) };
            let mut b = Board::new();
            b.put(Bitboard(1u64 << 4), Piece::King, Color::White).unwrap();       // e1
            b.put(Bitboard(1u64 << 60), Piece::King, Color::Black).unwrap();      // e8
            b.put(Bitboard(1u64 << (cap_rank * 8 + capturer_file)), Piece::Pawn, cc).unwrap();
            b.put(Bitboard(1u64 << (push_from * 8 + pusher_file)), Piece::Pawn, pc).unwrap();
            b.lose_castle_rights(0b1111);
            b.set_turn(pc);
            ChessMove::Standard(StandardChessMove::new(Bitboard(1u64 << (push_from * 8 + pusher_file)), Bitboard(1u64 << (push_to * 8 + pusher_file)), None)).apply(&mut b).unwrap();
            b.toggle_turn();
            let moves = MoveGenerator::new().generate_moves(&mut b, cc);
            let from = Bitboard(1u64 << (cap_rank * 8 + capturer_file));
            let to = Bitboard(1u64 << (target_rank * 8 + pusher_file));
            let n = moves.iter().filter(|m| matches!(m, ChessMove::EnPassant(_)) && m.from_square() == from && m.to_square() == to).count();
            assert_eq!(n, 1, "{:?} pawn on file {} must be offered exactly one en passant capture onto file {} (found {})", cc, capturer_file, pusher_file, n);
            let other_ep = moves.iter().filter(|m| matches!(m, ChessMove::EnPassant(_))).count();
            assert_eq!(other_ep, 1, "no other en passant capture may be listed");
        }
    } }
}
