// shared helpers of the bounded native twins (textually included by each twin)
use chess::board::color::Color;
use chess::board::piece::Piece;
use chess::board::Board;
use chess::chess_move::chess_move::ChessMove;
use chess::move_generator::MoveGenerator;
use common::bitboard::bitboard::Bitboard;

#[allow(dead_code)]
pub fn snapshot(b: &Board) -> (Vec<Option<(Piece, Color)>>, Color, u8, u64, u8, u8, u64, u8) {
    let squares: Vec<_> = (0..64).map(|i| b.get(Bitboard(1u64 << i))).collect();
    (squares, b.turn(), b.peek_castle_rights(), b.peek_en_passant_target().0, b.halfmove_clock(), b.fullmove_clock(),
     b.current_position_hash(), b.max_seen_position_count())
}

/// the position only (everything but the repetition count the game API maintains)
#[allow(dead_code)]
pub fn snapshot_position(b: &Board) -> (Vec<Option<(Piece, Color)>>, Color, u8, u64, u8, u8, u64) {
    let s = snapshot(b);
    (s.0, s.1, s.2, s.3, s.4, s.5, s.6)
}

pub struct Lcg(pub u64);
impl Lcg {
    pub fn next(&mut self) -> u64 {
        self.0 = self.0.wrapping_mul(6364136223846793005).wrapping_add(1442695040888963407);
        self.0 >> 33
    }
    #[allow(dead_code)]
    pub fn below(&mut self, n: usize) -> usize { (self.next() as usize) % n }
}

/// the position after `plies` pseudo-random legal plies from the starting position
#[allow(dead_code)]
pub fn opening(game: u64, plies: usize) -> Board {
    let mut mg = MoveGenerator::new();
    let mut b = Board::starting_position();
    let mut r = Lcg(0x9E3779B97F4A7C15u64.wrapping_mul(game + 1));
    for _ in 0..plies {
        let turn = b.turn();
        let moves = mg.generate_moves(&mut b, turn);
        if moves.is_empty() { break; }
        let m: ChessMove = moves[r.below(moves.len())].clone();
        m.apply(&mut b).unwrap();
        b.toggle_turn();
    }
    b
}

#[allow(dead_code)]
pub fn setup(men: &[(Bitboard, Piece, Color)], turn: Color) -> Board {
    let mut b = Board::new();
    for (sq, p, c) in men { b.put(*sq, *p, *c).unwrap(); }
    b.lose_castle_rights(0b1111);
    b.set_turn(turn);
    b
}
