// BOUNDED native twin for C18 (never counted as proved): colour symmetry of the static score (swap the colours of
// all pieces and rotate the board by 180 degrees => the score changes sign), its magnitude below every mate score
// without overflow for extreme material, stalemate = 0, quicker mates score better for the mating side.
// Bound: 3000 pseudo-random placements of up to 14 men + every (piece, colour) alone on every square + 9-queen set-ups;
// one mate and one stalemate position at remaining depths 0..255.
include!("common.rs");
use chess::evaluate;
use common::bitboard::square::*;

fn mirror(b: &Board) -> Board {
    let mut m = Board::new();
    for i in 0..64 {
        if let Some((p, c)) = b.get(Bitboard(1u64 << i)) { m.put(Bitboard(1u64 << (63 - i)), p, c.opposite()).unwrap(); }
    }
    m.lose_castle_rights(0b1111);
    m.set_turn(b.turn().opposite());
    m
}

fn check_symmetry(name: &str, b: &Board) {
    let (s, t) = (evaluate::board_material_score(b) as i32, evaluate::board_material_score(&mirror(b)) as i32);
    assert!(s == -t, "{}: score {} but the colour-swapped, rotated position scores {}", name, s, t);
    let bound = (i16::MAX / 2 - 255) as i32;
    assert!(s.abs() < bound, "{}: |score| = {} is not below every mate score ({})", name, s.abs(), bound);
}

#[test]
fn static_score_is_colour_symmetric_and_below_mate_scores() {
    let pieces = [Piece::Pawn, Piece::Knight, Piece::Bishop, Piece::Rook, Piece::Queen];
    // every piece alone (with the two kings) on every square
    for &p in pieces.iter() { for &c in [Color::White, Color::Black].iter() { for sq in 0..64u32 {
        if p == Piece::Pawn && !(8..56).contains(&sq) { continue; }
        let (wk, bk) = (if sq == 4 { 3 } else { 4 }, if sq == 60 { 59 } else { 60 });
        if sq == wk || sq == bk { continue; }
        let b = setup(&[(Bitboard(1u64 << wk), Piece::King, Color::White), (Bitboard(1u64 << bk), Piece::King, Color::Black), (Bitboard(1u64 << sq), p, c)], Color::White);
        check_symmetry(&format!("{:?} {:?} on {}", c, p, sq), &b);
    } } }
    // pseudo-random placements
    let mut r = Lcg(17);
    for n in 0..3000 {
        let mut b = Board::new();
        let mut used = 0u64;
        let mut place = |b: &mut Board, used: &mut u64, p: Piece, c: Color, r: &mut Lcg| {
            loop {
                let sq = r.below(64);
                if *used & (1u64 << sq) != 0 || (p == Piece::Pawn && !(8..56).contains(&sq)) { continue; }
                *used |= 1u64 << sq; b.put(Bitboard(1u64 << sq), p, c).unwrap(); break;
            }
        };
        place(&mut b, &mut used, Piece::King, Color::White, &mut r);
        place(&mut b, &mut used, Piece::King, Color::Black, &mut r);
        for _ in 0..r.below(13) { let p = pieces[r.below(5)]; let c = if r.below(2) == 0 { Color::White } else { Color::Black }; place(&mut b, &mut used, p, c, &mut r); }
        b.lose_castle_rights(0b1111);
        check_symmetry(&format!("random placement {}", n), &b);
    }
    // nine queens a side and lopsided extremes
    let mut q = Board::new();
    q.put(E1, Piece::King, Color::White).unwrap(); q.put(E8, Piece::King, Color::Black).unwrap();
    for f in 0..8u32 { q.put(Bitboard(1u64 << (8 + f)), Piece::Queen, Color::White).unwrap(); }
    q.put(D1, Piece::Queen, Color::White).unwrap();
    q.lose_castle_rights(0b1111);
    check_symmetry("nine white queens", &q);
}

#[test]
fn stalemate_is_zero_and_quicker_mates_score_better() {
    let stalemate = setup(&[(F7, Piece::King, Color::White), (G6, Piece::Queen, Color::White), (H8, Piece::King, Color::Black)], Color::Black);
    let mated_black = setup(&[(G1, Piece::King, Color::White), (E8, Piece::Rook, Color::White), (G8, Piece::King, Color::Black),
        (F7, Piece::Pawn, Color::Black), (G7, Piece::Pawn, Color::Black), (H7, Piece::Pawn, Color::Black)], Color::Black);
    let mated_white = mirror(&mated_black);
    let mut mg = MoveGenerator::new();
    let mut prev_b: Option<i16> = None;
    let mut prev_w: Option<i16> = None;
    for depth in 0..=255u8 {
        assert_eq!(evaluate::score(&mut stalemate.clone(), &mut mg, Color::Black, depth), 0, "stalemate at remaining depth {}", depth);
        let sb = evaluate::score(&mut mated_black.clone(), &mut mg, Color::Black, depth);   // White has mated: higher is better for White
        let sw = evaluate::score(&mut mated_white.clone(), &mut mg, Color::White, depth);   // Black has mated: lower is better for Black
        assert!(sb as i32 > 12000 && (sw as i32) < -12000, "mate scores at depth {}: {} / {}", depth, sb, sw);
        if let Some(p) = prev_b { assert!(sb > p, "mate with more depth remaining ({}) must score better for White: {} vs {}", depth, sb, p); }
        if let Some(p) = prev_w { assert!(sw < p, "mate with more depth remaining ({}) must score better for Black: {} vs {}", depth, sw, p); }
        prev_b = Some(sb); prev_w = Some(sw);
    }
}
