// BOUNDED native twin for C07 (never counted as proved): for a fixed set of positions and depths 0..3 the
// search answers with a legal move / the right error and leaves every observable of the board unchanged.
// Bound: 10 pseudo-random opening positions + 6 hand-made ones (mated, stalemated, single reply, in check,
// promotion next, en passant available), depths 0, 1, 2, 3, a fresh context each.
include!("common.rs");
use chess::alpha_beta_searcher::{alpha_beta_search, SearchContext, SearchError};
use common::bitboard::square::*;

fn positions() -> Vec<(String, Board)> {
    let mut v: Vec<(String, Board)> = (0..10).map(|g| (format!("opening {}", g), opening(g, 4 + (g as usize % 5) * 2))).collect();
    v.push(("back-rank mate, Black to move".into(), setup(&[(G1, Piece::King, Color::White), (E8, Piece::Rook, Color::White), (G8, Piece::King, Color::Black),
        (F7, Piece::Pawn, Color::Black), (G7, Piece::Pawn, Color::Black), (H7, Piece::Pawn, Color::Black)], Color::Black)));
    v.push(("stalemate, Black to move".into(), setup(&[(F7, Piece::King, Color::White), (G6, Piece::Queen, Color::White), (H8, Piece::King, Color::Black)], Color::Black)));
    v.push(("single reply".into(), setup(&[(A1, Piece::King, Color::Black), (C2, Piece::King, Color::White), (H2, Piece::Rook, Color::White), (B8, Piece::Rook, Color::White)], Color::Black)));
    v.push(("in check".into(), setup(&[(E1, Piece::King, Color::White), (E8, Piece::Rook, Color::Black), (A8, Piece::King, Color::Black), (D2, Piece::Bishop, Color::White)], Color::White)));
    v.push(("promotion next".into(), setup(&[(E1, Piece::King, Color::White), (A7, Piece::Pawn, Color::White), (H8, Piece::King, Color::Black), (B2, Piece::Pawn, Color::Black)], Color::White)));
    let mut ep = setup(&[(E1, Piece::King, Color::White), (E5, Piece::Pawn, Color::White), (E8, Piece::King, Color::Black), (D7, Piece::Pawn, Color::Black)], Color::Black);
    ChessMove::Standard(chess::chess_move::standard::StandardChessMove::new(D7, D5, None)).apply(&mut ep).unwrap();
    ep.toggle_turn();
    v.push(("en passant available".into(), ep));
    v
}

#[test]
fn search_returns_a_legal_move_or_the_right_error_and_restores_the_board() {
    for (name, b0) in positions() {
        for depth in 0u8..=3 {
            let mut b = b0.clone();
            let turn = b.turn();
            let legal = MoveGenerator::new().generate_moves(&mut b.clone(), turn);
            let before = snapshot(&b);
            let mut ctx = SearchContext::new(depth);
            let res = std::panic::catch_unwind(std::panic::AssertUnwindSafe(|| alpha_beta_search(&mut ctx, &mut b, &mut MoveGenerator::new())));
            let res = match res { Ok(r) => r, Err(_) => panic!("{} depth {}: the search panicked", name, depth) };
            assert!(snapshot(&b) == before, "{} depth {}: the caller's board changed", name, depth);
            match res {
                Err(SearchError::DepthTooLow) => assert!(depth == 0, "{} depth {}: DepthTooLow", name, depth),
                Err(SearchError::NoAvailableMoves) => assert!(depth >= 1 && legal.is_empty(), "{} depth {}: NoAvailableMoves with {} legal moves", name, depth, legal.len()),
                Ok(m) => {
                    assert!(depth >= 1, "{} depth 0 returned a move", name);
                    assert!(legal.iter().any(|l| l.from_square() == m.from_square() && l.to_square() == m.to_square() && l.captures() == m.captures()
                        && l.to_uci() == m.to_uci()), "{} depth {}: {} is not a legal move", name, depth, m);
                }
            }
        }
    }
}

/// ONE search context reused (as a Game reuses its context): every position is searched with White to move and with
/// Black to move (same placement, same key - the key does not cover the side to move), then again, at depths 1..3;
/// whatever the context remembers, the answer is a legal move of the side to move / the right error, board unchanged
/// (added after seed r13_C07: a root-result memo keyed by position hash and depth only)
#[test]
fn reused_context_answers_for_the_side_to_move() {
    let mut placements: Vec<(String, Board)> = positions();
    placements.push(("kings and a rook".into(), setup(&[(A1, Piece::King, Color::White), (B2, Piece::Rook, Color::White), (H8, Piece::King, Color::Black), (G6, Piece::Pawn, Color::Black)], Color::White)));
    placements.push(("kings and pawns".into(), setup(&[(E1, Piece::King, Color::White), (E2, Piece::Pawn, Color::White), (E8, Piece::King, Color::Black), (D7, Piece::Pawn, Color::Black)], Color::White)));
    for depth in 1u8..=3 {
        let mut ctx = SearchContext::new(depth);
        for round in 0..2 {
            for (name, b0) in placements.iter() {
                for flip in [false, true] {
                    let mut b = b0.clone();
                    if flip { b.toggle_turn(); }
                    let turn = b.turn();
                    // the flipped position must be consistent: the side not to move is not in check, no stale en-passant target
                    let mut probe = b.clone();
                    if flip && (chess::evaluate::player_is_in_check(&mut probe, &mut MoveGenerator::new(), turn.opposite()) || !b.peek_en_passant_target().is_empty()) { continue; }
                    let legal = MoveGenerator::new().generate_moves(&mut b.clone(), turn);
                    let before = snapshot(&b);
                    let res = std::panic::catch_unwind(std::panic::AssertUnwindSafe(|| alpha_beta_search(&mut ctx, &mut b, &mut MoveGenerator::new())));
                    let res = match res { Ok(r) => r, Err(_) => panic!("{} ({:?} to move) depth {} round {}: the search panicked", name, turn, depth, round) };
                    assert!(snapshot(&b) == before, "{} ({:?} to move) depth {}: the caller's board changed", name, turn, depth);
                    match res {
                        Err(SearchError::DepthTooLow) => panic!("{} depth {}: DepthTooLow", name, depth),
                        Err(SearchError::NoAvailableMoves) => assert!(legal.is_empty(), "{} ({:?} to move) depth {} round {}: NoAvailableMoves with {} legal moves", name, turn, depth, round, legal.len()),
                        Ok(m) => assert!(legal.iter().any(|l| l.to_uci() == m.to_uci() && l.captures() == m.captures()),
                                         "{} ({:?} to move) depth {} round {}: {} is not a legal move of the side to move (reused context)", name, turn, depth, round, m),
                    }
                }
            }
        }
    }
}
