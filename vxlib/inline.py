"""R19 -- inlining of calls to private helper functions that are NOT under contract.

A refactoring that moves part of a contracted function into a new helper would otherwise leave the
woven unit without a definition (or without a contract) for that helper, and the run undecided.
When it is safe, the call is beta-reduced in the extracted text instead:

    RECV.helper(a1, a2)      ->   { let a1__h = a1; let a2__h = a2; let p1 = a1__h; let p2 = a2__h; BODY[self := RECV] }
    helper(a1, a2)           ->   { let a1__h = a1; ...; BODY }

Conditions (otherwise nothing is inlined and the normal "undecided" outcome applies):
  * `helper` is defined exactly once in /repo's src, common/src or precompile/src, and is not one of
    the functions the templates put under contract;
  * its parameters are plain `name: Type` (plus optionally `&self` / `&mut self` / `self`);
  * RECV is `self`, an identifier or a field path of identifiers (`self.position_info`): a place expression,
    so binding a reference to it duplicates no effects;
  * the helper body contains no `return` and no `?` -- unless the call is the whole tail expression of
    the caller (then a `return`/`?` in the helper returns from the caller exactly as the call did);
  * the helper is not recursive and contains no macro definitions / nested fn items.
Arguments are evaluated once, in order, before the parameters are bound (fresh `__h` temporaries), so
evaluation order and shadowing are those of the call.
"""
import glob
import os
import re

from . import extract as ex

_DEF_CACHE = {}


def _all_defs(repo):
    """name -> list of (path, Source) of files that define `fn name`"""
    if repo in _DEF_CACHE:
        return _DEF_CACHE[repo]
    idx = {}
    files = []
    for base in ('src', 'common/src', 'precompile/src'):
        files += glob.glob(os.path.join(repo, base, '**', '*.rs'), recursive=True)
    for f in files:
        try:
            txt = ex.strip_tests(open(f).read())
        except Exception:
            continue
        skip = ex._skip_map(txt)
        for m in re.finditer(r'\bfn\s+([A-Za-z_]\w*)\s*[(<]', txt):
            if not skip[m.start()]:
                idx.setdefault(m.group(1), []).append((f, m.start()))
    _DEF_CACHE[repo] = idx
    return idx


def _parse_def(path, start):
    txt = ex.strip_tests(open(path).read())
    skip = ex._skip_map(txt)
    p_open = txt.index('(', start)
    p_close = ex.match_brace(txt, p_open, skip)
    b_open = txt.index('{', p_close)
    if ';' in txt[p_close:b_open]:
        return None
    b_close = ex.match_brace(txt, b_open, skip)
    params_txt = txt[p_open + 1:p_close]
    body = txt[b_open + 1:b_close]
    # split params at depth 0
    parts, cur, depth = [], '', 0
    for ch in params_txt:
        if ch in '(<[':
            depth += 1
        elif ch in ')>]':
            depth -= 1
        if ch == ',' and depth == 0:
            parts.append(cur)
            cur = ''
        else:
            cur += ch
    if cur.strip():
        parts.append(cur)
    has_self = False
    self_kind = 'val'
    names = []
    types = []
    for p in parts:
        p = p.strip()
        if not p:
            continue
        if re.fullmatch(r'(&\s*(mut\s+)?)?self', p):
            has_self = True
            self_kind = 'mut' if re.search(r'&\s*mut', p) else ('ref' if '&' in p else 'val')
            continue
        m = re.fullmatch(r'(?:mut\s+)?([a-z_]\w*)\s*:\s*(.+)', p, re.S)
        if not m:
            return None
        names.append(m.group(1))
        types.append(m.group(2).strip())
    return {'has_self': has_self, 'self_kind': self_kind, 'params': names, 'types': types, 'body': body}


def _split_args(s):
    parts, cur, depth = [], '', 0
    for ch in s:
        if ch in '([{':
            depth += 1
        elif ch in ')]}':
            depth -= 1
        if ch == ',' and depth == 0:
            parts.append(cur.strip())
            cur = ''
        else:
            cur += ch
    if cur.strip():
        parts.append(cur.strip())
    return parts


def _subst_self(body, recv):
    if recv == 'self':
        return body
    skip = ex._skip_map(body)
    out, last = [], 0
    for m in re.finditer(r'\bself\b', body):
        if skip[m.start()]:
            continue
        out.append(body[last:m.start()])
        out.append(recv)
        last = m.end()
    out.append(body[last:])
    return ''.join(out)


def eliminate_guards(hb):
    """`S1; if C { return E; } REST`  ->  `S1; if C { E } else { REST }` (top-level guard clauses only).
    Returns the rewritten body (may still contain other `return`s, which the caller then rejects)."""
    for _ in range(8):
        stmts = ex.split_statements(hb)
        hit = None
        for (a, b, semi) in stmts:
            st = hb[a:b]
            m = re.match(r'if\b', st)
            if not m or semi:
                continue
            skip = ex._skip_map(st)
            try:
                o = st.index('{')
                while skip[o]:
                    o = st.index('{', o + 1)
                c = ex.match_brace(st, o, skip)
            except (ValueError, ex.ExtractError):
                continue
            if st[c + 1:].strip():
                continue                      # has an else branch
            inner = st[o + 1:c].strip()
            mm = re.fullmatch(r'return\b\s*(.*?);?', inner, re.S)
            if mm and not re.search(r'\breturn\b', mm.group(1)):
                hit = (a, b, st[:o].rstrip(), mm.group(1).strip())
                break
            # `if C { S1; ...; Sn; return E; }`: the guard's own statements stay in front of its value
            try:
                ist = ex.split_statements(inner)
            except ex.ExtractError:
                continue
            if len(ist) < 2:
                continue
            (la, lb, _lsemi) = ist[-1]
            mm = re.fullmatch(r'return\b\s*(.*?);?', inner[la:lb].strip() , re.S)
            prefix = inner[:la]
            if not mm or re.search(r'\breturn\b', mm.group(1)) or re.search(r'\breturn\b', prefix) or inner[lb:].strip().strip(';').strip():
                continue
            hit = (a, b, st[:o].rstrip(), prefix.rstrip() + ' ' + mm.group(1).strip())
            break
        if hit is None:
            return hb
        a, b, cond, expr = hit
        rest = hb[b:]
        hb = hb[:a] + '%s { %s } else { %s }' % (cond, expr, rest.strip()) + '\n'
    return hb


def inline_helpers(repo, body, covered, self_name, log, depth=0, stack=()):
    """covered: set of bare function names that the templates contract (never inlined)."""
    if depth > 2:
        return body
    defs = _all_defs(repo)
    tail = ex.tail_expr_span(body)
    changed = True
    guard = 0
    while changed and guard < 6:
        changed = False
        guard += 1
        skip = ex._skip_map(body)
        for m in re.finditer(r'(?:\b((?:[A-Za-z_]\w*\s*\.\s*)*[A-Za-z_]\w*)\s*\.\s*)?\b([a-z_]\w*)\s*\(', body):
            if skip[m.start()]:
                continue
            recv, name = m.group(1), m.group(2)
            if recv is not None:
                recv = re.sub(r'\s+', '', recv)
            if name in covered or (name == self_name and depth == 0) or name not in defs:
                continue
            # the receiver must be a PLACE made of identifiers only (`x`, `self.position_info`): no calls, no
            # indexing, so naming it twice duplicates no effect; anything else (`f().helper(`, `a[i].helper(`) -> skip
            pre = body[:m.start()].rstrip()
            if pre.endswith('.') or pre.endswith('::') or pre.endswith(')') and False:
                continue
            if recv is not None and re.search(r'(^|\.)\d', recv):
                continue
            p_open0 = body.index('(', m.end() - 1)
            nargs = len(_split_args(body[p_open0 + 1:ex.match_brace(body, p_open0, skip)]))
            cands = []
            for (path, start) in defs[name]:
                dd = _parse_def(path, start)
                if dd is not None and dd['has_self'] == (recv is not None) and len(dd['params']) == nargs:
                    dd['key'] = (path, start)
                    cands.append(dd)
            if len(cands) != 1:
                continue                      # unknown or ambiguous (same name, same arity)
            d = cands[0]
            if d['key'] in stack:
                continue                      # (mutually) recursive helper: not inlined
            hb = eliminate_guards(d['body'])
            if re.search(r'\b(fn|macro_rules!)\b', hb):
                continue
            p_open = body.index('(', m.end() - 1)
            p_close = ex.match_brace(body, p_open, skip)
            args = _split_args(body[p_open + 1:p_close])
            if len(args) != len(d['params']):
                continue
            call_start, call_end = m.start(), p_close + 1
            is_tail = tail is not None and body[tail[0]:tail[1]].strip() == body[call_start:call_end].strip()
            if not is_tail and (re.search(r'\breturn\b', hb) or '?' in re.sub(r'"[^"]*"', '', hb)):
                continue
            def bind(pn, ty, a):
                # reference parameters are re-borrowed, exactly as a call does implicitly
                if ty.startswith('&mut') or ty.startswith('& mut'):
                    return 'let %s__h = &mut *(%s); ' % (pn, a)
                if ty.startswith('&'):
                    return 'let %s__h = &*(%s); ' % (pn, a)
                return 'let %s__h = %s; ' % (pn, a)
            # argument temporaries first (they may mention an outer `self__h`), then the receiver (a place: no
            # effects, so evaluating it after the arguments changes nothing), then the parameters
            binds = ''.join(bind(pn, ty, a) for pn, ty, a in zip(d['params'], d['types'], args))
            if recv and recv != 'self':
                # `self` inside the helper is a reference to the receiver
                binds += ('let self__h = &%s; ' % recv if d['self_kind'] == 'ref' else
                          'let self__h = &mut %s; ' % recv if d['self_kind'] == 'mut' else 'let self__h = %s; ' % recv)
                inner = _subst_self(hb, 'self__h')
            else:
                inner = hb
            binds += ''.join('let %s = %s__h; ' % (p, p) for p in d['params'])
            inner = inline_helpers(repo, inner, covered, name, log, depth + 1, stack + (d['key'],))
            body = body[:call_start] + '/*R19<*/({ ' + binds + inner + ' })/*R19>*/' + body[call_end:]
            log.append('R19')
            changed = True
            tail = ex.tail_expr_span(body)
            break
    return body
