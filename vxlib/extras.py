"""Property-specific side engines (exhaustive checks of build constants, Kani twins).
Each returns {'report':..., 'backends':[...], 'violations':[...], 'exhaustive': {...}} or None."""


def run(pid, cfg, tier, seed):
    return None
