"""Property-specific side engines.

* exhaustive evaluation of the build-time constants (Zobrist tables for C05, magic tables for C11)
  -- closed finite statements about generated files, reported separately from the deductive
  obligations (`exhaustive: true`), never counted as proved-for-every-draw;
* Kani (CBMC) complete proofs of the closed knight/king table generators for C11;
* interface check: the contract text of MagicTable::get_*_targets seen by the move generator
  (u4_magic_iface.vrs) is the one proved in unit_magic (u4_magic.vrs).

Each returns {'report':..., 'backends':[...], 'violations':[...], 'exhaustive': {...}} or None.
Scratch copies live under a fresh temporary directory outside /repo and /verif and are deleted
before returning.
"""
import glob
import hashlib
import json
import os
import re
import shutil
import subprocess
import tempfile
import time

from . import driver as dr


def _limit_mem():
    """CBMC can need tens of GB on mutated code: cap the address space of the Kani process tree (16 GB) so a runaway
    query ends as 'unknown' (the fallback then simply gives no verdict) instead of exhausting the machine"""
    import resource
    lim = 16 * 1024 ** 3
    resource.setrlimit(resource.RLIMIT_AS, (lim, lim))

MASK64 = (1 << 64) - 1


# --------------------------------------------------------------------------- helpers
def _out_dirs(repo):
    """OUT_DIRs of existing builds of the crate under <repo>/target (the constants the test suite runs with)."""
    res = []
    for p in glob.glob(os.path.join(repo, 'target', '*', 'build', 'chess-*', 'out')):
        if os.path.exists(os.path.join(p, 'zobrist_table.rs')) and os.path.exists(os.path.join(p, 'magic_table.rs')):
            res.append(p)
    return sorted(res)


def _fresh_build(repo):
    """Build a scratch copy (build script runs => a fresh draw of all random tables). Returns (tmpdir, out_dir)."""
    tmp = tempfile.mkdtemp(prefix='vx_build_')
    dst = os.path.join(tmp, 'repo')
    subprocess.run(['rsync', '-a', '--exclude', 'target', '--exclude', '.git', repo + '/', dst + '/'], check=True)
    env = dict(os.environ, CARGO_NET_OFFLINE='true', CARGO_TARGET_DIR=os.path.join(tmp, 'target'))
    p = subprocess.run(['cargo', 'build', '--offline', '--lib'], cwd=dst, env=env, stdout=subprocess.PIPE,
                       stderr=subprocess.STDOUT, text=True, timeout=1500)
    outs = glob.glob(os.path.join(tmp, 'target', 'debug', 'build', 'chess-*', 'out'))
    outs = [o for o in outs if os.path.exists(os.path.join(o, 'zobrist_table.rs'))]
    if p.returncode != 0 or not outs:
        shutil.rmtree(tmp, ignore_errors=True)
        raise dr.Undecided('scratch build of the crate failed: ' + p.stdout[-800:])
    return tmp, outs[0]


def _parse_zobrist(path):
    t = open(path).read()
    m = re.search(r'ZOBRIST_PIECES_TABLE[^=]*=\s*\[(.*?)\n\];', t, re.S)
    pieces = [int(x) for x in re.findall(r'\b(\d+)\b(?=\s*[,\]])', re.sub(r'//.*', '', m.group(1)))]
    m = re.search(r'ZOBRIST_CASTLING_RIGHTS_TABLE[^=]*=\s*\[(.*?)\n\];', t, re.S)
    cr = [int(x) for x in re.findall(r'\b(\d+)\b', re.sub(r'//.*', '', m.group(1)))]
    m = re.search(r'ZOBRIST_EN_PASSANT_TABLE[^=]*=\s*\[(.*?)\n\];', t, re.S)
    ep = [int(x) for x in re.findall(r'\b(\d+)\b', re.sub(r'//.*', '', m.group(1)))]
    return pieces, cr, ep


def check_zobrist(out_dir):
    """tables_distinct() of u2b_board.vrs, evaluated on one generated file."""
    pieces, cr, ep = _parse_zobrist(os.path.join(out_dir, 'zobrist_table.rs'))
    problems = []
    if len(pieces) != 6 * 64 * 2 or len(cr) != 16 or len(ep) != 64:
        return {'file': out_dir, 'ok': False, 'problems': ['unexpected table sizes %d/%d/%d' % (len(pieces), len(cr), len(ep))], 'cases': 0}
    # pieces[p][sq][color]
    def pk(p, s, c):
        return pieces[(p * 64 + s) * 2 + c]
    cases = 0
    for s in range(64):
        keys = [pk(p, s, c) for p in range(6) for c in range(2)]
        cases += len(keys)
        if any(k == 0 for k in keys):
            problems.append('zero piece key on square %d' % s)
        if len(set(keys)) != len(keys):
            problems.append('two (piece,colour) share a key on square %d' % s)
    cases += 16 + 64
    if len(set(cr)) != 16:
        problems.append('two castling-rights sets share a key')
    if any(k == 0 for k in ep) or len(set(ep)) != 64:
        problems.append('en-passant keys not distinct / non-zero')
    # stronger than the property needs: all 848 constants pairwise distinct
    allk = pieces + cr + ep
    return {'file': out_dir, 'ok': not problems, 'problems': problems, 'cases': cases,
            'all_848_pairwise_distinct': len(set(allk)) == len(allk)}


# ---- magic tables ---------------------------------------------------------
ROOK_D = [(1, 0), (0, -1), (-1, 0), (0, 1)]
BISHOP_D = [(1, 1), (1, -1), (-1, -1), (-1, 1)]


def _ray_attacks(sq, occ, deltas):
    r0, f0 = divmod(sq, 8)
    res = 0
    for dr_, df in deltas:
        r, f = r0 + dr_, f0 + df
        while 0 <= r < 8 and 0 <= f < 8:
            b = 1 << (r * 8 + f)
            res |= b
            if occ & b:
                break
            r += dr_
            f += df
    return res


def _relmask(sq, deltas):
    r0, f0 = divmod(sq, 8)
    res = 0
    for dr_, df in deltas:
        r, f = r0 + dr_, f0 + df
        while 0 <= r + dr_ < 8 and 0 <= f + df < 8:
            res |= 1 << (r * 8 + f)
            r += dr_
            f += df
    return res


def _parse_magics(path):
    t = open(path).read()
    res = {}
    for name in ('ROOK', 'BISHOP'):
        m = re.search(r'%s_MAGICS[^=]*=\s*&\[(.*?)\];' % name, t, re.S)
        ents = re.findall(r'mask:\s*0x([0-9A-Fa-f]+),\s*magic:\s*0x([0-9A-Fa-f]+),\s*shift:\s*(\d+),\s*offset:\s*(\d+)', m.group(1))
        size = int(re.search(r'%s_TABLE_SIZE:\s*usize\s*=\s*(\d+);' % name, t).group(1))
        res[name] = ([(int(a, 16), int(b, 16), int(c), int(d)) for a, b, c, d in ents], size)
    return res


def check_magics(out_dir):
    """magics_ok of u4_magic.vrs + table content, evaluated exhaustively on one generated file."""
    mg = _parse_magics(os.path.join(out_dir, 'magic_table.rs'))
    problems = []
    cases = 0
    for name, deltas in (('ROOK', ROOK_D), ('BISHOP', BISHOP_D)):
        ents, size = mg[name]
        if len(ents) != 64:
            problems.append('%s: %d entries' % (name, len(ents)))
            continue
        running = 0
        for sq, (mask, magic, shift, offset) in enumerate(ents):
            if mask != _relmask(sq, deltas):
                problems.append('%s[%d]: mask is not the relevant-blocker mask' % (name, sq))
            bits = bin(mask).count('1')
            if shift != 64 - bits or not (0 < shift < 64):
                problems.append('%s[%d]: shift %d != 64 - popcount(mask)' % (name, sq, shift))
            if offset != running:
                problems.append('%s[%d]: offset %d is not the running sum %d' % (name, sq, offset, running))
            span = 1 << (64 - shift)
            running += span
            slots = {}
            sub = 0
            while True:
                idx = ((sub * magic) & MASK64) >> shift
                att = _ray_attacks(sq, sub, deltas)
                cases += 1
                if idx >= span:
                    problems.append('%s[%d]: index out of range' % (name, sq))
                    break
                if slots.setdefault(idx, att) != att:
                    problems.append('%s[%d]: destructive collision for blockers %#x' % (name, sq, sub))
                    break
                sub = (sub - mask) & mask
                if sub == 0:
                    break
        if running != size:
            problems.append('%s: TABLE_SIZE %d != sum of spans %d' % (name, size, running))
    return {'file': out_dir, 'ok': not problems, 'problems': problems[:10], 'cases': cases}


# ---- Kani ------------------------------------------------------------------
KANI_HARNESSES = ['knight_table_matches_spec', 'king_table_matches_spec', 'ordered_squares_file_major', 'to_algebraic_matches_rank_file']


def run_kani(repo):
    tmp = tempfile.mkdtemp(prefix='vx_kani_')
    try:
        dst = os.path.join(tmp, 'repo')
        subprocess.run(['rsync', '-a', '--exclude', 'target', '--exclude', '.git', repo + '/', dst + '/'], check=True)
        tgt = os.path.join(dst, 'src', 'move_generator', 'targets.rs')
        with open(tgt, 'a') as f:
            f.write('\n#[cfg(kani)] #[path = "%s"] mod verif_kani_tables;\n' % os.path.join(dr.VERIF, 'kani', 'tables.rs'))
        env = dict(os.environ, CARGO_NET_OFFLINE='true')
        cmd = ['cargo', 'kani']
        for h in KANI_HARNESSES:
            cmd += ['--harness', h]
        cmd += ['-j', '4', '--output-format', 'terse']
        t0 = time.time()
        p = subprocess.run(cmd, cwd=dst, env=env, stdout=subprocess.PIPE, stderr=subprocess.STDOUT, text=True, timeout=2400)
        out = p.stdout
        res = {}
        failed = set(x.split('::')[-1] for x in re.findall(r'Verification failed for - (\S+)', out))
        m = re.search(r'Complete - (\d+) successfully verified harnesses, (\d+) failures, (\d+) total', out)
        for h in KANI_HARNESSES:
            if h in failed:
                res[h] = 'FAILED'
            elif m and int(m.group(3)) == len(KANI_HARNESSES) and int(m.group(1)) + int(m.group(2)) == len(KANI_HARNESSES):
                res[h] = 'SUCCESSFUL'
            else:
                res[h] = 'UNKNOWN'
        return {'cmd': 'CARGO_NET_OFFLINE=true ' + ' '.join(cmd), 'results': res, 'wall_s': round(time.time() - t0, 1),
                'rc': p.returncode, 'tail': out[-1500:]}
    finally:
        shutil.rmtree(tmp, ignore_errors=True)


# ---- bounded Kani twin of apply/undo (thorough tier of C03 / C04) ---------------------------
MOVE_HARNESSES = ['std_apply_undo_board_a', 'promo_apply_undo_board_p', 'ep_apply_undo', 'castle_apply_undo_board_c', 'two_ply_apply_undo_board_a']
FALLBACK_PROPS = ('C03', 'C04', 'C12', 'C16')


NATIVE_TWINS = {
    # property -> (test file in bounded_native/, [test fn names or None for all], stated bound)
    'C17': ('c17_registration_model', None,
            '4000 pseudo-random sequences x 16 operations (register, unregister, toggle side, move either king) on a two-king board vs a reference multiset of (placement, side to move) and a reference stack; one game through the Game API in which the start position recurs: draw reported exactly at the third occurrence; 300 shuffling walks x 40 plies of real legal play from the starting position (rights lost by rook / king moves, en-passant targets, a third of the plies taken back): reported count == registrations of the same (placement, side to move, castling rights, en-passant target); 120 games x up to 60 plies THROUGH THE GAME API with irreversible moves mixed in (recurrences of the position right after a capture / pawn move included): reported count == occurrences in the game, drawn exactly at the third'),
    'C01': ('c01_perft_suite', ['leaf_counts_match_the_published_perft_figures_with_a_fresh_generator', 'en_passant_is_offered_on_every_file_pair'],
            'en passant on all 14 adjacent file pairs x 2 colours; five standard perft positions (start 1..5, Kiwipete 1..3, position 3 1..4, position 4 1..3, position 5 1..3): leaf counts of generate_moves + apply + undo against the published figures, board restored'),
    'C02': ('c01_perft_suite', ['leaf_counts_do_not_depend_on_what_the_generator_was_asked_before'],
            'one generator reused across five standard perft positions, depths 1..3, two rounds: leaf counts equal the published figures whatever was asked before'),
    'C03': ('c03_successor_model', None, 'SUCC'),
    'C04': ('c03_successor_model', None, 'SUCC'),
    'C12': ('c03_successor_model', None, 'SUCC'),
    'C16': ('c03_successor_model', None, 'SUCC'),
    'C05': ('c05_key_model', None,
            '40 pseudo-random legal walks x up to 60 plies (start position and a castling-rich position), every third ply undone and replayed: key == key of the same position set up directly; undo restores the key'),
    'C06': ('c06_annotation_model', None,
            '24 positions (14 pseudo-random openings, discovered check / mate by en passant, by a quiet move, double check, promotions incl. under-promotions, back-rank mate, stalemate threat, castling check; a fresh oracle generator per successor): every listed move is annotated with the verdict of its successor; player_is_in_check / player_is_in_checkmate / game_ending agree with a brute-force reading'),
    'C07': ('c07_search_model', None,
            '16 positions (10 pseudo-random openings, mated, stalemated, single reply, in check, promotion next, en passant) x depths 0..3, fresh context: legal move / right error, every observable of the board unchanged, no panic; ONE reused context per depth 1..3 through 18 placements x both sides to move x 2 rounds: a legal move of the side to move'),
    'C08': ('c08_minimax_model', None,
            '9 positions x depths 1..3 with a fresh context, 4 games x 8 plies at depth 3 with one reused context, and one context through 16 unrelated positions (values far apart in both directions, both sides to move) at depths 2 and 3; 5 forced-mate games x depths 3, 4 with one reused context (the same mated position met at different remaining depths): reported score == unpruned uncached reference minimax, returned move attains it'),
    'C10': ('c10_perft_model', None,
            '7 positions (incl. a stalemated root, a checkmated root, mate in one) x depths 0..3 x rayon pools {1,2,3,4,7,16} x fresh/reused generator: count_positions == reference count (20, 420, 9322, 206603 from the start position), board unchanged; ONE generator through 7 related roots x both sides to move x depths 0..2 x 2 rounds: every figure == a fresh reference count'),
    'C11': ('c11_attack_geometry', None,
            'EXHAUSTIVE for rook and bishop over every subset of the relevance mask on every square (102,400 + 5,248 cases); queen / knight / king x 64 squares x 24 pseudo-random blocker sets; pawns of both colours x 48 squares: the reported attack map equals the walked geometry (no wrap-around, rays stop at the first blocker)'),
    'C18': ('c18_score_model', None,
            'every (piece, colour) alone on every square, 3000 pseudo-random placements of up to 14 men, nine queens: score == -score(colour-swapped rotated position), |score| below every mate score; stalemate 0 and strictly better quicker mates at remaining depths 0..255'),
    'C14': ('c14_c15_game_model', ['coordinate_pairs_accepted_iff_legal_played_exactly_rejected_without_effect', 'typed_labels_accepted_iff_legal_played_exactly_rejected_without_effect', 'every_listed_label_plays_its_own_move'],
            '5 positions x all 4096 coordinate pairs (accepted iff legal, successor board and history on acceptance, queen for a promoting pair, nothing changed on rejection); notation strings, bounded only: every listed label of 7 positions (incl. under-promotions of both colours) plays its own move; 7 games x 12 plies typed as labels (3 crafted lines: tempo loss twice, two knights on b1/e4 reaching d2; labels of a position pairwise distinct), near-miss labels (of the other side, of the previous position, with the case of the first letter flipped) rejected without effect'),
    # not a bounded twin but an EXHAUSTIVE evaluation of this build's book data (C15, second sentence); run in both tiers
    'C15:book': ('c15_book_lines', None,
                 'EXHAUSTIVE for the data of this build: every path of the compiled opening book and every line of opening_lines.txt'),
    'C15': ('c14_c15_game_model', ['engine_move_is_a_legal_move_whenever_one_exists', 'engine_move_is_legal_when_the_book_reply_is_only_pseudo_legal'],
            '5 positions (incl. supplied ones) x 8 engine selections at depth 2: a legal move, never an error, board unchanged; 3 supplied positions / histories in which the book reply is only pseudo-legal (mover in check, pinned pawn) x 12 selections'),
}


_SUCC_BOUND = ('70 pseudo-random legal walks x up to 80 plies from 7 starting positions (start, corner captures, castling-rich, promotion-rich, '
               'en-passant-rich, two openings): EVERY legal move of every visited position is applied and compared field by field with the '
               'rules\' successor (placement, rights, en-passant target, both counters, turn), undone and compared with the state before; '
               'representation invariants in every visited state')


def run_native_twin(repo, pid):
    """BOUNDED stand-in, never counted as proved: a differential / model-based integration test against the
    crate's PUBLIC API, run in release mode on a scratch copy of the tree under check."""
    name, tests, bound = NATIVE_TWINS[pid]
    if bound == 'SUCC':
        bound = _SUCC_BOUND
    tmp = tempfile.mkdtemp(prefix='vx_native_')
    try:
        dst = os.path.join(tmp, 'repo')
        subprocess.run(['rsync', '-a', '--exclude', '.git', '--exclude', 'target/debug', repo + '/', dst + '/'], check=True)
        os.makedirs(os.path.join(dst, 'tests'), exist_ok=True)
        for f in (name + '.rs', 'common.rs'):
            shutil.copy(os.path.join(dr.VERIF, 'bounded_native', f), os.path.join(dst, 'tests', f))
        # `common.rs` is include!()d, not a test target of its own
        with open(os.path.join(dst, 'Cargo.toml')) as f:
            cargo = f.read()
        if 'autotests' not in cargo:
            cargo = cargo.replace('[package]', '[package]\nautotests = false', 1) + '\n[[test]]\nname = "%s"\npath = "tests/%s.rs"\n' % (name, name)
            with open(os.path.join(dst, 'Cargo.toml'), 'w') as f:
                f.write(cargo)
        env = dict(os.environ, CARGO_NET_OFFLINE='true')
        cmd = ['cargo', 'test', '--release', '--offline', '--test', name]
        if tests:
            cmd += ['--'] + tests
        elif name == 'c15_book_lines':
            cmd += ['--', '--show-output']
        t0 = time.time()
        p = subprocess.run(cmd, cwd=dst, env=env, stdout=subprocess.PIPE, stderr=subprocess.STDOUT, text=True, timeout=3000)
        out = p.stdout
        failed_t = re.findall(r'(?m)^test (\S+) \.\.\. FAILED', out)
        msgs = re.findall(r"(?ms)^thread '[^']*'[^\n]*panicked at [^\n]*\n(.*?)(?:\nstack backtrace|\nnote:)", out)
        if re.search(r'(?m)^test result: ok\.', out) and p.returncode == 0:
            res = 'SUCCESSFUL'
        elif failed_t:
            res = 'FAILED'
        else:
            res = 'UNKNOWN'
        return {'cmd': 'CARGO_NET_OFFLINE=true ' + ' '.join(cmd) + '   (in a scratch copy with bounded_native/%s.rs as tests/%s.rs)' % (name, name),
                'result': res, 'failed_checks': [m.strip()[:400] for m in msgs][:6], 'failed_harnesses': failed_t, 'playback': [],
                'wall_s': round(time.time() - t0, 1), 'tail': out[-2500:], 'bound': bound, 'engine': 'native twin (bounded test)'}
    finally:
        shutil.rmtree(tmp, ignore_errors=True)


def fallback_bounded(pid):
    """Called when the deductive check is UNDECIDED (e.g. the change introduced an un-contracted helper):
    the bounded Kani twins only use the crate's PUBLIC API, so they still apply.  A counterexample is a
    violation (with CBMC's failed checks attached); a pass leaves the verdict undecided."""
    if pid in NATIVE_TWINS:
        # the native twin is fast: it goes first; the (slower, symbolic) Kani twin of C18 only runs if it passes
        k = run_native_twin(dr.REPO, pid)
        viol = []
        if k['result'] == 'FAILED':
            viol.append(_viol(pid, 'native-bounded', NATIVE_TWINS[pid][0] + ' (public API)', 'test-assertion', ','.join(k['failed_harnesses']) or 'twin',
                              k['tail'], {'has_input': True, 'checker_cmd': k['cmd'], 'failed_checks': k['failed_checks'],
                                          'concrete_playback': k['failed_checks'], 'bounded': k['bound']}))
        # properties that also have a (slower, symbolic) Kani twin fall through to it when the native twin passes
        if viol or pid not in ('C18', 'C03', 'C04', 'C12', 'C16'):
            return {'kani': k, 'violations': viol}
    if pid == 'C18':
        k = run_kani_moves(dr.REPO, ['material_score_is_antisymmetric'], module='evaluate')
        k['bound'] = 'kings on e1/e8 plus ONE further man of symbolic kind, colour and square (kani/evaluate.rs); symmetry and range of board_material_score; public API only'
        viol = []
        if k['result'] == 'FAILED':
            viol.append(_viol(pid, 'kani-bounded', 'board_material_score (public API)', 'kani-assertion', 'material_score_is_antisymmetric',
                              k['tail'], {'has_input': bool(k.get('playback')), 'checker_cmd': k['cmd'], 'failed_checks': k['failed_checks'],
                                          'concrete_playback': k.get('playback'), 'bounded': k['bound']}))
        return {'kani': k, 'violations': viol}
    if pid == 'C05' and os.environ.get('VX_KANI_KEY_TWIN'):
        k = run_kani_moves(dr.REPO, ['key_is_function_of_position_two_ply', 'two_ply_apply_undo_board_a'])
        k['bound'] = 'board_a of kani/moves.rs, six fixed first moves x a symbolic reply: key == key of the same position set up directly; key restored by undo; public API only'
        viol = []
        if k['result'] == 'FAILED':
            viol.append(_viol(pid, 'kani-bounded', 'position key (public API)', 'kani-assertion', ','.join(k['failed_harnesses']) or 'key',
                              k['tail'], {'has_input': bool(k.get('playback')), 'checker_cmd': k['cmd'], 'failed_checks': k['failed_checks'],
                                          'concrete_playback': k.get('playback'), 'bounded': k['bound']}))
        return {'kani': k, 'violations': viol}
    if pid not in FALLBACK_PROPS:
        return None
    k = run_kani_moves(dr.REPO, MOVE_HARNESSES)
    viol = []
    if k['result'] == 'FAILED':
        viol.append(_viol(pid, 'kani-bounded', 'apply+undo (public API)', 'kani-assertion', ','.join(k['failed_harnesses']) or 'moves',
                          k['tail'], {'has_input': bool(k.get('playback')), 'checker_cmd': k['cmd'], 'failed_checks': k['failed_checks'],
                                      'concrete_playback': k.get('playback'), 'bounded': k['bound']}))
    return {'kani': k, 'violations': viol}


def run_kani_moves(repo, harnesses=None, module='moves'):
    """BOUNDED stand-in, never counted as proved: StandardChessMove::apply + undo on ONE fixed board
    (kani/moves.rs: 13 men, both kings/rooks on home squares) with a fully SYMBOLIC (from, to) pair,
    compared with an executable transcription of the rules' successor.  Its value is a concrete
    counterexample (CBMC trace) when a contract is refuted."""
    tmp = tempfile.mkdtemp(prefix='vx_kani_')
    try:
        dst = os.path.join(tmp, 'repo')
        subprocess.run(['rsync', '-a', '--exclude', 'target', '--exclude', '.git', repo + '/', dst + '/'], check=True)
        shutil.copy(os.path.join(dr.VERIF, 'kani', module + '.rs'), os.path.join(dst, 'src', 'verif_kani_%s.rs' % module))
        with open(os.path.join(dst, 'src', 'lib.rs'), 'a') as f:
            f.write('\n#[cfg(kani)] mod verif_kani_%s;\n' % module)
        env = dict(os.environ, CARGO_NET_OFFLINE='true')
        harnesses = harnesses or ['std_apply_undo_board_a']
        cmd = ['cargo', 'kani']
        for h in harnesses:
            cmd += ['--harness', h]
        cmd += ['-j', '4', '--output-format', 'terse']
        t0 = time.time()
        p = subprocess.run(cmd, cwd=dst, env=env, stdout=subprocess.PIPE, stderr=subprocess.STDOUT, text=True, timeout=3600, preexec_fn=_limit_mem)
        out = p.stdout
        m = re.search(r'Complete - (\d+) successfully verified harnesses, (\d+) failures, (\d+) total', out)
        failed_h = [x.split('::')[-1] for x in re.findall(r'Verification failed for - (\S+)', out)]
        if m and int(m.group(2)) == 0 and int(m.group(1)) == len(harnesses):
            res = 'SUCCESSFUL'
        elif failed_h or (m and int(m.group(2)) > 0) or 'VERIFICATION:- FAILED' in out:
            res = 'FAILED'
        else:
            res = 'UNKNOWN'
        failed = re.findall(r'Failed Checks: (.*)', out)
        pb = []
        if res == 'FAILED' and failed_h:
            # second pass, single-threaded, for CBMC's concrete counterexample of the first failing harness
            cmd2 = ['cargo', 'kani', '--harness', failed_h[0], '--output-format', 'terse', '-Z', 'concrete-playback', '--concrete-playback=print']
            try:
                p2 = subprocess.run(cmd2, cwd=dst, env=env, stdout=subprocess.PIPE, stderr=subprocess.STDOUT, text=True, timeout=1800, preexec_fn=_limit_mem)
                pb = re.findall(r'(#\[test\]\s*fn kani_concrete_playback_\w+\(\) \{.*?\n\})', p2.stdout, re.S)
                failed = failed or re.findall(r'Failed Checks: (.*)', p2.stdout)
            except Exception:
                pass
        return {'cmd': 'CARGO_NET_OFFLINE=true ' + ' '.join(cmd), 'result': res, 'failed_checks': failed[:8], 'failed_harnesses': failed_h,
                'playback': pb[:4], 'wall_s': round(time.time() - t0, 1), 'tail': out[-1500:],
                'bound': 'fixed boards of kani/moves.rs (board_a: standard moves, board_p: promotions, board_e: en passant, board_c: castling; two plies on board_a: six fixed first moves x symbolic reply); every (from,to[,piece]) satisfying the shape precondition; public API only'}
    finally:
        shutil.rmtree(tmp, ignore_errors=True)


# ---- interface consistency ------------------------------------------------------
def iface_consistent():
    """The contract of get_rook_targets / get_bishop_targets / new in u4_magic_iface.vrs must be the text
    proved in u4_magic.vrs."""
    a = open(os.path.join(dr.CONTRACTS, 'u4_magic_iface.vrs')).read()
    b = open(os.path.join(dr.CONTRACTS, 'u4_magic.vrs')).read()
    out = []
    for fn in ('get_rook_targets', 'get_bishop_targets'):
        ma = re.search(r'fn %s\b.*?requires(.*?)ensures(.*?)\{' % fn, a, re.S)
        mb = re.search(r'MagicTable::%s\b.*?requires(.*?)ensures(.*?)//@' % fn, b, re.S)
        if not ma or not mb:
            out.append('%s: contract not found in one of the templates' % fn)
            continue
        na = (dr.norm(ma.group(1)).rstrip(', '), dr.norm(ma.group(2)).rstrip(', '))
        nb = (dr.norm(mb.group(1)).rstrip(', '), dr.norm(mb.group(2)).rstrip(', '))
        if na != nb:
            out.append('%s: interface %r differs from proved %r' % (fn, na, nb))
    return out


def _viol(pid, unit, fn, kind, clause, text, extra):
    os.makedirs(dr.REPLAY, exist_ok=True)
    fl = {'fn': fn, 'kind': kind, 'clause': clause, 'rendered': text, 'has_input': bool(extra.get('has_input'))}
    oid = dr.obligation_id(unit, fl)
    path = os.path.join(dr.REPLAY, '%s-%s.json' % (pid, hashlib.sha256(oid.encode()).hexdigest()[:10]))
    with open(path, 'w') as f:
        json.dump({'property': pid, 'failed_obligation': oid, 'verifier_output': text, **extra}, f, indent=1)
    fl['replay'] = path
    return {'unit': unit, 'fl': fl}


def run(pid, cfg, tier, seed):
    """side engines of a property; in the thorough tier the bounded native twin (if any) is added to whatever the
    property's own side engines report"""
    res = _run_base(pid, cfg, tier, seed)
    if tier == 'thorough' and pid in NATIVE_TWINS and not (res and 'native_bounded_twin' in res.get('report', {})):
        fb = fallback_bounded(pid)
        if fb is not None:
            res = res or {'report': {}, 'backends': [], 'violations': []}
            res['report']['native_bounded_twin'] = fb['kani']
            res['backends'] = list(res.get('backends', [])) + ['native differential test (bounded stand-in)']
            res['violations'] = list(res.get('violations', [])) + fb['violations']
            res['bounded'] = list(res.get('bounded', [])) + [fb['kani']['bound']]
    return res


def _run_base(pid, cfg, tier, seed):
    repo = dr.REPO
    if pid == 'C05':
        rep = {'zobrist_distinctness': []}
        viol = []
        dirs = _out_dirs(repo)
        tmp = None
        try:
            if tier == 'thorough' or not dirs:
                tmp, od = _fresh_build(repo)
                dirs = dirs + [od]
            for d in dirs:
                r = check_zobrist(d)
                r['file'] = d if tmp is None or not d.startswith(tmp) else '<fresh scratch build>/out'
                rep['zobrist_distinctness'].append(r)
                if not r['ok']:
                    viol.append(_viol(pid, 'build-constants', 'zobrist_table.rs', 'exhaustive', 'tables_distinct()',
                                      '; '.join(r['problems']), {'has_input': True, 'generated_file': r['file'],
                                                                 'note': 'the generated Zobrist constants of this build are not pairwise distinct / non-zero'}))
        finally:
            if tmp:
                shutil.rmtree(tmp, ignore_errors=True)
        return {'report': rep, 'backends': ['native-exhaustive(python)'], 'violations': viol,
                'exhaustive': {'what': 'tables_distinct() on every generated zobrist_table.rs found (and a fresh scratch build in the thorough tier)',
                               'files': len(rep['zobrist_distinctness']), 'cases': sum(r['cases'] for r in rep['zobrist_distinctness'])}}
    if pid == 'C11':
        rep = {'magic_constants': [], 'kani': None, 'interface': iface_consistent()}
        viol = []
        if rep['interface']:
            raise dr.Undecided('magic-table interface contract drifted: ' + '; '.join(rep['interface']))
        dirs = _out_dirs(repo)
        tmp = None
        try:
            if tier == 'thorough' or not dirs:
                tmp, od = _fresh_build(repo)
                dirs = dirs + [od]
            for d in dirs:
                r = check_magics(d)
                r['file'] = d if tmp is None or not d.startswith(tmp) else '<fresh scratch build>/out'
                rep['magic_constants'].append(r)
                if not r['ok']:
                    viol.append(_viol(pid, 'build-constants', 'magic_table.rs', 'exhaustive', 'magics_ok',
                                      '; '.join(r['problems']), {'has_input': True, 'generated_file': r['file']}))
        finally:
            if tmp:
                shutil.rmtree(tmp, ignore_errors=True)
        k = run_kani(repo)
        rep['kani'] = k
        for h, v in k['results'].items():
            if v == 'FAILED':
                viol.append(_viol(pid, 'kani', 'targets::' + h, 'kani-assertion', h, k['tail'],
                                  {'has_input': False, 'checker_cmd': k['cmd']}))
            elif v != 'SUCCESSFUL':
                raise dr.Undecided('Kani harness %s did not finish: %s' % (h, k['tail'][-400:]))
        return {'report': rep, 'backends': ['kani-cbmc', 'native-exhaustive(python)'], 'violations': viol,
                'exhaustive': {'what': 'magics_ok + table content for all 64 squares x all subsets of the relevance mask (rook and bishop) on every generated magic_table.rs found',
                               'files': len(rep['magic_constants']), 'cases': sum(r['cases'] for r in rep['magic_constants'])}}
    if pid == 'C15':
        # second sentence: the shipped book's lines are legal from the standard starting position -- build-time DATA,
        # decided by evaluating every line / every path of the compiled book with the (C01-proved) generator
        k = run_native_twin(repo, 'C15:book')
        viol = []
        if k['result'] == 'FAILED':
            viol.append(_viol(pid, 'book-data', 'opening_lines.txt / create_book()', 'exhaustive', ','.join(k['failed_harnesses']) or 'book',
                              k['tail'], {'has_input': True, 'checker_cmd': k['cmd'], 'failed_checks': k['failed_checks'],
                                          'concrete_playback': k['failed_checks']}))
        elif k['result'] != 'SUCCESSFUL':
            raise dr.Undecided('book data check did not run: ' + k['tail'][-400:])
        n_lines = 0
        try:
            with open(os.path.join(repo, 'opening_lines.txt')) as f:
                n_lines = sum(1 for l in f if len(l.rstrip('\n').split(': ')) == 2)
        except OSError:
            pass
        m = re.search(r'book nodes walked: (\d+)', k['tail'])
        return {'report': {'book_data': {kk: k[kk] for kk in ('cmd', 'result', 'failed_checks', 'failed_harnesses', 'wall_s')}},
                'backends': ['native-exhaustive(rust test, public API)'], 'violations': viol,
                'exhaustive': {'what': 'C15 second sentence: every path of the compiled opening book (create_book()) and every line of opening_lines.txt is a legal move sequence from the standard starting position; every source line is present in the compiled book',
                               'files': 1, 'cases': n_lines, 'book_nodes': int(m.group(1)) if m else None}}
    if pid == 'C18' and tier == 'thorough':
        fb = fallback_bounded(pid)
        return {'report': {'kani_bounded_twin': fb['kani']}, 'backends': ['kani-cbmc (bounded stand-in)'], 'violations': fb['violations'],
                'bounded': [fb['kani']['bound']]}
    if pid in FALLBACK_PROPS and tier == 'thorough':
        k = run_kani_moves(repo, MOVE_HARNESSES)
        viol = []
        if k['result'] == 'FAILED':
            viol.append(_viol(pid, 'kani-bounded', 'StandardChessMove::apply+undo', 'kani-assertion', ','.join(k['failed_harnesses']) or 'moves',
                              k['tail'], {'has_input': bool(k.get('playback')), 'checker_cmd': k['cmd'], 'failed_checks': k['failed_checks'], 'concrete_playback': k.get('playback')}))
        return {'report': {'kani_bounded_twin': k}, 'backends': ['kani-cbmc (bounded stand-in)'], 'violations': viol,
                'bounded': [k['bound']]}
    return None
