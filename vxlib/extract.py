"""Mechanical extraction of items from /repo's current working tree.

Nothing in here knows anything about chess.  It finds Rust items by name with a
comment/string-aware brace matcher, and applies the fixed list of purely
syntactic rewrite rules (DESIGN.md section 2.2).  Every rule application is
logged; a rule whose pattern is required but does not match raises
ExtractError, which the driver turns into "undecided" (exit 2), never into a
violation.
"""
import hashlib
import re


class ExtractError(Exception):
    pass


# --------------------------------------------------------------------------
# lexical helpers

def _skip_map(src):
    """Return a bytearray m with m[i] = 1 where src[i] is inside a comment,
    string literal or char literal (so braces there do not count)."""
    n = len(src)
    m = bytearray(n)
    i = 0
    while i < n:
        c = src[i]
        if c == '/' and i + 1 < n and src[i + 1] == '/':
            j = src.find('\n', i)
            if j < 0:
                j = n
            for k in range(i, j):
                m[k] = 1
            i = j
        elif c == '/' and i + 1 < n and src[i + 1] == '*':
            depth = 1
            j = i + 2
            while j < n and depth:
                if src.startswith('/*', j):
                    depth += 1
                    j += 2
                elif src.startswith('*/', j):
                    depth -= 1
                    j += 2
                else:
                    j += 1
            for k in range(i, j):
                m[k] = 1
            i = j
        elif c == '"':
            j = i + 1
            while j < n and src[j] != '"':
                if src[j] == '\\':
                    j += 1
                j += 1
            for k in range(i, min(j + 1, n)):
                m[k] = 1
            i = j + 1
        elif c == 'r' and re.match(r'r#*"', src[i:i + 8]) and (i == 0 or not (src[i - 1].isalnum() or src[i - 1] == '_')):
            mm = re.match(r'r(#*)"', src[i:])
            close = '"' + mm.group(1)
            j = src.find(close, i + len(mm.group(0)))
            j = n if j < 0 else j + len(close)
            for k in range(i, j):
                m[k] = 1
            i = j
        elif c == "'":
            # char literal or lifetime
            mm = re.match(r"'(\\.[^']*|[^'\\])'", src[i:i + 12])
            if mm:
                for k in range(i, i + len(mm.group(0))):
                    m[k] = 1
                i += len(mm.group(0))
            else:
                i += 1
        else:
            i += 1
    return m


def match_brace(src, open_idx, skip=None):
    """Index of the brace/paren/bracket closing the one at open_idx."""
    if skip is None:
        skip = _skip_map(src)
    o = src[open_idx]
    c = {'{': '}', '(': ')', '[': ']'}[o]
    depth = 0
    for i in range(open_idx, len(src)):
        if skip[i]:
            continue
        if src[i] == o:
            depth += 1
        elif src[i] == c:
            depth -= 1
            if depth == 0:
                return i
    raise ExtractError('unbalanced %s at offset %d' % (o, open_idx))


def _depth_map(src, skip):
    d = [0] * (len(src) + 1)
    depth = 0
    for i, ch in enumerate(src):
        d[i] = depth
        if skip[i]:
            continue
        if ch == '{':
            depth += 1
        elif ch == '}':
            depth -= 1
            d[i] = depth
    d[len(src)] = depth
    return d


def strip_tests(src):
    """Drop everything from the first top-level `#[cfg(test)]` on (the test
    module is always last in this code base; checked)."""
    i = src.find('#[cfg(test)]')
    return src if i < 0 else src[:i]


# --------------------------------------------------------------------------
# item location

class Item:
    def __init__(self, kind, name, attrs, head, body, full, start, end):
        self.kind, self.name, self.attrs = kind, name, attrs
        self.head, self.body, self.full = head, body, full
        self.start, self.end = start, end

    def sha(self):
        return hashlib.sha256(self.full.encode()).hexdigest()


def _leading_attrs(src, start):
    """Extend `start` backwards over contiguous attribute / doc-comment lines."""
    lines_start = start
    while True:
        prev_end = src.rfind('\n', 0, lines_start - 1) if lines_start > 0 else -1
        line = src[prev_end + 1:lines_start]
        s = line.strip()
        if s.startswith('#[') or s.startswith('///') or s.startswith('//'):
            lines_start = prev_end + 1
            if lines_start == 0:
                break
            continue
        # multi-line attribute such as #[derive(\n ...)]
        break
    return lines_start


class Source:
    def __init__(self, path, text):
        self.path = path
        self.text = strip_tests(text)
        self.skip = _skip_map(self.text)
        self.depth = _depth_map(self.text, self.skip)

    # -- impl blocks -------------------------------------------------------
    def impl_span(self, ty, trait=None):
        t = self.text
        if trait:
            pat = r'(?m)^impl(?:<[^>]*>)?\s+(?:[\w:]+::)?%s(?:<[^>{]*>)?\s+for\s+%s\b[^{;]*\{' % (re.escape(trait), re.escape(ty))
        else:
            pat = r'(?m)^impl(?:<[^>]*>)?\s+%s\s*\{' % re.escape(ty)
        spans = []
        for m in re.finditer(pat, t):
            if self.skip[m.start()] or self.depth[m.start()] != 0:
                continue
            o = m.end() - 1
            c = match_brace(t, o, self.skip)
            spans.append((m.start(), o, c))
        if not spans:
            raise ExtractError('%s: impl %s%s not found' % (self.path, (trait + ' for ') if trait else '', ty))
        return spans

    # -- functions ---------------------------------------------------------
    def find_fn(self, qual):
        """qual: `name`, `Type::name` or `Trait@Type::name`."""
        t = self.text
        if '::' in qual:
            owner, name = qual.rsplit('::', 1)
            trait = None
            if '@' in owner:
                trait, owner = owner.split('@', 1)
            regions = [(o, c, 1) for (_s, o, c) in self.impl_span(owner, trait)]
        else:
            name = qual
            regions = [(0, len(t), 0)]
        pat = re.compile(r'(?m)^[ \t]*((?:pub(?:\([^)]*\))?\s+)?(?:const\s+)?fn\s+%s\b)' % re.escape(name))
        hits = []
        for (lo, hi, want_depth) in regions:
            for m in pat.finditer(t, lo, hi):
                if self.skip[m.start(1)] or self.depth[m.start(1)] != want_depth:
                    continue
                hits.append(m)
        if not hits:
            raise ExtractError('%s: fn %s not found' % (self.path, qual))
        if len(hits) > 1:
            raise ExtractError('%s: fn %s is ambiguous (%d matches)' % (self.path, qual, len(hits)))
        m = hits[0]
        sig_start = m.start(1)
        # body brace: first `{` at same depth after the parameter list
        p_open = t.index('(', m.end(1))
        p_close = match_brace(t, p_open, self.skip)
        b_open = p_close
        while True:
            b_open = t.index('{', b_open)
            if not self.skip[b_open]:
                break
            b_open += 1
        b_close = match_brace(t, b_open, self.skip)
        a_start = _leading_attrs(t, t.rfind('\n', 0, sig_start) + 1)
        attrs = t[a_start:t.rfind('\n', 0, sig_start) + 1]
        head = t[sig_start:b_open].rstrip()
        body = t[b_open + 1:b_close]
        return Item('fn', qual, attrs, head, body, t[sig_start:b_close + 1], sig_start, b_close + 1)

    # -- other items ---------------------------------------------------------
    def find_item(self, kind, name, owner=None):
        """kind in struct|enum|const|type|static|macro_call.  `owner` = impl type for
        associated consts."""
        t = self.text
        if owner and owner.startswith('mod:'):
            mname = owner[4:]
            regions = []
            for m in re.finditer(r'(?m)^(?:pub\s+)?mod\s+%s\s*\{' % re.escape(mname), t):
                if self.skip[m.start()] or self.depth[m.start()] != 0:
                    continue
                o = m.end() - 1
                regions.append((o, match_brace(t, o, self.skip), 1))
            if not regions:
                raise ExtractError('%s: mod %s not found' % (self.path, mname))
        elif owner:
            regions = [(o, c, 1) for (_s, o, c) in self.impl_span(owner)]
        else:
            regions = [(0, len(t), 0)]
        if kind in ('struct', 'enum'):
            pat = re.compile(r'(?m)^[ \t]*((?:pub(?:\([^)]*\))?\s+)?%s\s+%s\b)' % (kind, re.escape(name)))
        elif kind in ('const', 'static', 'type'):
            pat = re.compile(r'(?m)^[ \t]*((?:pub(?:\([^)]*\))?\s+)?%s\s+%s\b)' % (kind, re.escape(name)))
        else:
            raise ExtractError('unknown item kind ' + kind)
        for (lo, hi, want_depth) in regions:
            for m in pat.finditer(t, lo, hi):
                if self.skip[m.start(1)] or self.depth[m.start(1)] != want_depth:
                    continue
                start = m.start(1)
                # end: `;` at same nesting or matching `}` (struct/enum with braces)
                i = m.end(1)
                end = None
                while i < len(t):
                    if self.skip[i]:
                        i += 1
                        continue
                    ch = t[i]
                    if ch in '{([':
                        j = match_brace(t, i, self.skip)
                        if ch == '{' and kind in ('struct', 'enum'):
                            end = j + 1
                            break
                        i = j + 1
                        continue
                    if ch == ';':
                        end = i + 1
                        break
                    i += 1
                if end is None:
                    raise ExtractError('%s: end of %s %s not found' % (self.path, kind, name))
                a_start = _leading_attrs(t, t.rfind('\n', 0, start) + 1)
                attrs = t[a_start:t.rfind('\n', 0, start) + 1]
                return Item(kind, name, attrs, t[start:m.end(1)], None, t[start:end], start, end)
        raise ExtractError('%s: %s %s not found' % (self.path, kind, name))


# --------------------------------------------------------------------------
# rewrite rules (DESIGN.md 2.2).  Each returns (new_text, n_applications).

def _split_for(body, skip, m_end_in):
    return None


_FOR_RANGE = re.compile(r'\bfor\s+(\w+)\s+in\s+(\w[\w.()]*)\s*\.\.\s*([\w.()]+?)\s*\{')
_FOR_REF_ARR = re.compile(r'\bfor\s+&(\w+|\([^)]*\))\s+in\s+&?([A-Za-z_][\w.]*)\s*\{')
_FOR_ARR_CONST = re.compile(r'\bfor\s+(\w+)\s+in\s+([A-Z_][A-Z0-9_]*)\s*\{')
_FOR_ENUM = re.compile(r'\bfor\s+\((\w+),\s*&(\w+)\)\s+in\s+([\w.]+)\.iter\(\)\.enumerate\(\)\s*\{')


def r14_inline_map(body, log, kind):
    """R14: inline std's `Option::map` / `Result::map` applied to a closure literal:
         RECV.map(|x| EXPR)  ->  match RECV { Some(x) => Some(EXPR), None => None }
       (Result: Ok(x) => Ok(EXPR), Err(e__) => Err(e__)).  This is the definition of
       `map` in core; Verus cannot see through an un-annotated closure."""
    while True:
        skip = _skip_map(body)
        mo = None
        for m in re.finditer(r'\.map(?:_err)?\(\|\s*(\w+|\([\w\s,]*\))\s*\|', body):
            if not skip[m.start()]:
                mo = m
                break
        if mo is None:
            return body
        p_open = body.index('(', mo.start())
        p_close = match_brace(body, p_open, skip)
        expr = body[mo.end():p_close].strip()
        var = mo.group(1)
        is_err = body[mo.start():mo.start() + 8] == '.map_err'
        # receiver: walk backwards over a postfix chain (a method chain may be broken over lines)
        i = mo.start()
        while i > 0 and body[i - 1].isspace():
            i -= 1
        while i > 0:
            ch = body[i - 1]
            if ch in ')]':
                # find matching opener
                depth = 0
                j = i - 1
                closer = ch
                opener = '(' if ch == ')' else '['
                while j >= 0:
                    if not skip[j]:
                        if body[j] == closer:
                            depth += 1
                        elif body[j] == opener:
                            depth -= 1
                            if depth == 0:
                                break
                    j -= 1
                i = j
            elif ch.isalnum() or ch in '_.:' :
                i -= 1
            elif ch.isspace() and body[i:].lstrip().startswith('.'):
                # line break inside a method chain (`recv\n    .method()`)
                i -= 1
            else:
                break
        recv = body[i:mo.start()]
        if not recv.strip():
            raise ExtractError('R14: no receiver for .map at offset %d' % mo.start())
        if is_err:
            rep = 'match %s { Ok(v__) => Ok(v__), Err(%s) => Err(%s) }' % (recv, var, expr)
        elif kind == 'option':
            rep = 'match %s { Some(%s) => Some(%s), None => None }' % (recv, var, expr)
        else:
            v = var if var != '_' else '_x'
            rep = 'match %s { Ok(%s) => Ok(%s), Err(e__) => Err(e__) }' % (recv, v, expr)
        body = body[:i] + rep + body[p_close + 1:]
        log.append('R14')


def rewrite_body(body, log, r14=None, mut_refs=None):
    """Apply R1, R2, R3, R4, R9, R10 to a function body.  `log` is a list that
    receives one string per rule application."""
    # R4 -- drop log macros (debug!/trace!), possibly multi-line
    def drop_log(mo):
        log.append('R4')
        return ''
    skip = _skip_map(body)
    out = []
    i = 0
    for mo in re.finditer(r'(?m)^[ \t]*(debug|trace|info|warn)!\s*\(', body):
        if skip[mo.start()] or mo.start() < i:
            continue
        o = mo.end() - 1
        c = match_brace(body, o, skip)
        j = c + 1
        while j < len(body) and body[j] in ' \t':
            j += 1
        if j < len(body) and body[j] == ';':
            j += 1
        if j < len(body) and body[j] == '\n':
            j += 1
        out.append(body[i:mo.start()])
        i = j
        log.append('R4')
    out.append(body[i:])
    body = ''.join(out)

    # R13 -- opaque cache types
    body, n = re.subn(r'\bLruCache::new\(NonZeroUsize::new\([\d_]+\)\.unwrap\(\)\)', 'MoveCacheMap::new()', body)
    log.extend(['R13'] * n)
    if 'attacks_cache' in body:
        body, n = re.subn(r'\bFxHashMap::default\(\)', 'AttackCacheMap::default()', body)
        log.extend(['R13'] * n)

    # R9 -- constructor as function value, `_` closure parameter
    n = body.count('.map(Capture)')
    if n:
        body = body.replace('.map(Capture)', '.map(|x_| Capture(x_))')
        log.extend(['R9'] * n)
    body, n = re.subn(r'\|_\|', '|_x|', body)
    log.extend(['R9'] * n)

    if r14:
        body = r14_inline_map(body, log, r14)

    # R2 -- element loops over fixed arrays / slices
    def r2_enum(mo):
        log.append('R2')
        idx, pat, arr = mo.group(1), mo.group(2), mo.group(3)
        return 'for %s in 0..%s.len() { let %s = %s[%s];' % (idx, arr, pat, arr, idx)
    body = _FOR_ENUM.sub(r2_enum, body)

    def r2_ref(mo):
        log.append('R2')
        pat, arr = mo.group(1), mo.group(2)
        iv = 'i_' + re.sub(r'\W+', '_', pat).strip('_')
        return 'for %s in 0..%s.len() { let %s = %s[%s];' % (iv, arr, pat, arr, iv)
    body = _FOR_REF_ARR.sub(r2_ref, body)

    def r2_const(mo):
        log.append('R2')
        pat, arr = mo.group(1), mo.group(2)
        iv = 'i_' + pat
        return 'for %s in 0..%s.len() { let %s = %s[%s];' % (iv, arr, pat, arr, iv)
    body = _FOR_ARR_CONST.sub(r2_const, body)

    # R2 (c) -- consuming loop over a local Vec of Copy tuples: `for (a, b) in v {` -> index loop
    def r2_tuple(mo):
        log.append('R2')
        pat, vec = mo.group(1), mo.group(2)
        iv = 'i_' + vec
        return 'for %s in 0..%s.len() { let %s = %s[%s];' % (iv, vec, pat, vec, iv)
    body = re.sub(r'\bfor\s+(\([^)]*\))\s+in\s+([a-z_]\w*)\s*\{', r2_tuple, body)

    # R16 -- `RECV.iter().for_each(|&PAT| { BODY });` -> `for i_fe in 0..RECV.len() { let PAT = RECV[i_fe]; BODY }`
    # Semantic content: `Iterator::for_each` over a slice iterator calls the closure once per element,
    # in index order, on a reference to the element; `|&PAT|` copies the element out (PAT binds Copy
    # values).  Applied only when the exact shape matches and BODY has no `return` (which would leave
    # the closure, not the function); R1 then turns the range loop into a `while`.
    while True:
        skip = _skip_map(body)
        mo = None
        for m in re.finditer(r'\b([A-Za-z_][\w.]*)\.iter\(\)\.for_each\(\|&(\([^()|]*\)|\w+)\|\s*\{', body):
            if not skip[m.start()]:
                mo = m
                break
        if mo is None:
            break
        b_open = mo.end() - 1
        b_close = match_brace(body, b_open, skip)
        tail = re.match(r'\s*\)\s*;', body[b_close + 1:])
        inner = body[b_open + 1:b_close]
        if not tail or re.search(r'\breturn\b', inner):
            break
        recv, pat = mo.group(1), mo.group(2)
        body = (body[:mo.start()] + 'for i_fe in 0..%s.len() { let %s = %s[i_fe];' % (recv, pat, recv)
                + inner + '}' + body[b_close + 1 + tail.end():])
        log.append('R16')

    # R20 -- rayon: `let X = RECV.par_iter().map(|P| { BODY });` ... `let [mut] Y = X.collect::<Vec<_>>();`
    # -> `let mut X = Vec::new(); for P in RECV.iter() { let par_item__ = { BODY }; X.push(par_item__); }` ...
    # `let [mut] Y = X;`.  Semantic content: an indexed rayon `par_iter().map(f).collect::<Vec<_>>()` returns
    # `f(&RECV[0]), f(&RECV[1]), ...` in index order; `f` is `Fn + Sync`, so its captures are shared borrows and
    # the tasks can influence each other only through interior-mutable state reachable from them.  The rewrite
    # fixes ONE schedule (tasks one after the other, in index order): what it DROPS is every other interleaving.
    # Applied only when BODY has no `return` / `?` / `break` / `continue` (which could not leave a closure that way).
    while True:
        skip = _skip_map(body)
        mo = None
        for m in re.finditer(r'\blet\s+(\w+)\s*=\s*([A-Za-z_][\w.]*)\.par_iter\(\)\.map\(\|\s*(\w+)\s*\|\s*\{', body):
            if not skip[m.start()]:
                mo = m
                break
        if mo is None:
            break
        b_open = mo.end() - 1
        b_close = match_brace(body, b_open, skip)
        tail = re.match(r'\s*\)\s*;', body[b_close + 1:])
        inner = body[b_open + 1:b_close]
        if not tail or re.search(r'\b(return|break|continue)\b', inner) or '?' in re.sub(r'"[^"]*"', '', inner):
            break
        x, recv, pat = mo.groups()
        rest = body[b_close + 1 + tail.end():]
        mc = re.search(r'\blet\s+(mut\s+)?(\w+)\s*=\s*%s\.collect::<Vec<_>>\(\)\s*;' % re.escape(x), rest)
        ms = re.search(r'\b%s\.sum::<(usize|u64|u32)>\(\)' % re.escape(x), rest)
        if mc and len(re.findall(r'\b%s\b' % re.escape(x), rest[:mc.start()])) == 0:
            rest = rest[:mc.start()] + 'let %s%s = %s;' % (mc.group(1) or '', mc.group(2), x) + rest[mc.end():]
        elif ms and len(re.findall(r'\b%s\b' % re.escape(x), rest)) == 1:
            # R20 (sum form): `X.sum::<T>()` is `Iterator::sum`, i.e. a left fold with `+` from 0 over the
            # results in index order (overflow checked as for any `+`)
            rest = (rest[:ms.start()] + '({ let mut sum__: %s = 0; for v__ in %s.iter() { sum__ += *v__; } sum__ })' % (ms.group(1), x)
                    + rest[ms.end():])
        else:
            break
        body = (body[:mo.start()] + 'let mut %s = Vec::new(); for %s in %s.iter() { let par_item__ = {%s}; %s.push(par_item__); }'
                % (x, pat, recv, inner, x) + rest)
        log.append('R20')

    # R21 -- `X.sort_by(<closure>);` -> `vx_sort_by_abstract(X)` / `(&mut X)`: the comparator closure is dropped and
    # the call is specified as "X is permuted" (ASSUMED for `slice::sort_by`; WHICH permutation is left open, so
    # nothing proved may depend on the order).  `mut_refs` = names that are `&mut` parameters.
    while True:
        skip = _skip_map(body)
        mo = None
        for m in re.finditer(r'\b([a-z_]\w*)\.sort_by\(', body):
            if not skip[m.start()]:
                mo = m
                break
        if mo is None:
            break
        o = mo.end() - 1
        c = match_brace(body, o, skip)
        if not body[o + 1:c].lstrip().startswith('|'):
            break
        x = mo.group(1)
        arg = x if x in (mut_refs or ()) else '&mut ' + x
        clos = re.sub(r'\s+', '', body[o + 1:c])
        if clos == '|(a,_),(b,_)|b.cmp(a)':
            # the comparator orders pairs by DESCENDING first component: the call is specified as
            # "rearranged and sorted that way" (A-std for slice::sort_by with a total order on integers)
            body = body[:mo.start()] + 'vx_sort_by_first_desc(%s)' % arg + body[c + 1:]
        else:
            body = body[:mo.start()] + 'vx_sort_by_abstract(%s)' % arg + body[c + 1:]
        log.append('R21')

    # R22 -- `{ let mut G = PATH.write().unwrap(); *G += 1; }` -> `PATH.vx_incr();` (a shared statistics counter
    # behind Arc<RwLock<usize>>: an opaque type with an assumed, effect-free-for-everything-else contract;
    # poisoning and overflow of the statistics counter are NOT modelled)
    def r22(mo):
        log.append('R22')
        return '%s.vx_incr();' % mo.group(2)
    body = re.sub(r'\{\s*let\s+mut\s+(\w+)\s*=\s*([a-z_][\w.]*)\.write\(\)\.unwrap\(\);\s*\*\1\s*\+=\s*1;\s*\}', r22, body)

    # R24 -- hash-map entry idioms on the opaque repetition map (hashbrown's Entry API takes FnOnce(&mut V)
    # closures, outside Verus):
    #   M.entry(K).and_modify(|c| *c += D).or_insert(V);  ->  M.vx_entry_add_or_insert(K, D, V);
    #   M.entry(K).and_modify(|c| *c -= D);               ->  M.vx_entry_sub(K, D);
    # Semantic content (documented behaviour of `Entry::and_modify` / `or_insert`): if K is present its value is
    # modified in place by the closure, otherwise (first form) V is inserted / (second form) nothing happens.
    def r24a(mo):
        log.append('R24')
        return '%s.vx_entry_add_or_insert(%s, %s, %s);' % (mo.group(1), mo.group(2).strip(), mo.group(4), mo.group(5).strip())
    body = re.sub(r'\b([a-z_][\w.]*?)\s*\.entry\(([^()]*(?:\([^()]*\))?[^()]*)\)\s*\.and_modify\(\|(\w+)\|\s*\*\3\s*\+=\s*(\d+)\)\s*\.or_insert\(([^()]*)\);', r24a, body)
    def r24b(mo):
        log.append('R24')
        return '%s.vx_entry_sub(%s, %s);' % (mo.group(1), mo.group(2).strip(), mo.group(4))
    body = re.sub(r'\b([a-z_][\w.]*?)\s*\.entry\(([^()]*(?:\([^()]*\))?[^()]*)\)\s*\.and_modify\(\|(\w+)\|\s*\*\3\s*-=\s*(\d+)\);', r24b, body)

    # R23 -- legacy integer-module constants: `std::i16::MIN` is by definition `i16::MIN`
    def r23(mo):
        log.append('R23')
        return '%s::%s' % (mo.group(1), mo.group(2))
    body = re.sub(r'\bstd::(i8|i16|i32|i64|u8|u16|u32|u64|usize|isize)::(MIN|MAX)\b', r23, body)

    # R25 -- `RECV.iter().find(|P| COND)` -> a block that walks RECV in order and yields the first element
    # (as a reference) for which COND holds, else None: the definition of `Iterator::find` on a slice iterator.
    while True:
        skip = _skip_map(body)
        mo = None
        for m in re.finditer(r'\b([a-z_][\w.]*)\s*\.iter\(\)\s*\.find\(\|\s*(\w+)\s*\|', body):
            if not skip[m.start()]:
                mo = m
                break
        if mo is None:
            break
        p_open = body.index('(', body.index('.find', mo.start()))
        p_close = match_brace(body, p_open, skip)
        cond = body[mo.end():p_close].strip()
        if re.search(r'\b(return|break|continue)\b', cond) or cond.startswith('{'):
            break
        recv, pat = mo.group(1), mo.group(2)
        body = (body[:mo.start()] + '({ let mut found__ = None; for %s in %s.iter() { if %s { found__ = Some(%s); break; } } found__ })'
                % (pat, recv, cond, pat) + body[p_close + 1:])
        log.append('R25')

    # R26 -- `rand::thread_rng().gen_range(0..N)` -> `vx_rand_below(N)`: an arbitrary index below N (ASSUMED)
    def r26(mo):
        log.append('R26')
        return 'vx_rand_below(%s)' % mo.group(1).strip()
    body = re.sub(r'\brand::thread_rng\(\)\s*\.gen_range\(0\.\.([^()]*(?:\([^()]*\))?[^()]*)\)', r26, body)

    # R2 (d) -- borrowing loop over a local Vec: `for X in V.iter() {` -> index loop, X = reference to the
    # element (V is not consumed; `slice::Iter` yields `&V[0]`, `&V[1]`, ... in order)
    def r2_iter(mo):
        log.append('R2d')
        pat, vec = mo.group(1), mo.group(2)
        iv = 'i_' + pat
        return 'for %s in 0..%s.len() { let %s = &%s[%s];' % (iv, vec, pat, vec, iv)
    body = re.sub(r'\bfor\s+(\w+)\s+in\s+([a-z_]\w*)\.iter\(\)\s*\{', r2_iter, body)

    # R17 -- `let (mut A, B): (T, U) = RECV.into_iter().partition(|X| { PBODY });` -> explicit loop.
    # Semantic content: `Iterator::partition(f)` starts from two empty (`Default`) collections, takes the
    # elements of the iterator in order, calls `f(&x)` and extends the first collection with x if it
    # returned true, the second one otherwise.  `remove(0)` on the moved source yields the elements in
    # that same order.  Applied only when the exact shape matches and PBODY (a block whose tail
    # expression is the boolean) has no `return`.
    while True:
        skip = _skip_map(body)
        mo = None
        for m in re.finditer(r'\blet\s+\(\s*(?:mut\s+)?(\w+)\s*,\s*(?:mut\s+)?(\w+)\s*\)\s*:\s*\(\s*([\w:<>\[\]; ]+?)\s*,\s*([\w:<>\[\]; ]+?)\s*\)\s*=\s*'
                             r'([A-Za-z_][\w.]*)\.into_iter\(\)\.partition\(\|\s*(\w+)\s*\|\s*\{', body):
            if not skip[m.start()]:
                mo = m
                break
        if mo is None:
            break
        b_open = mo.end() - 1
        b_close = match_brace(body, b_open, skip)
        tail = re.match(r'\s*\)\s*;', body[b_close + 1:])
        inner = body[b_open + 1:b_close]
        if not tail or re.search(r'\breturn\b', inner):
            break
        a, b, ta, tb, recv, x = mo.groups()
        rep = ('let mut %s: %s = Vec::new(); let mut %s: %s = Vec::new(); let mut part_src__ = %s; '
               'while part_src__.len() > 0 { let x_owned__ = part_src__.remove(0); '
               'let keep__ = { let %s = &x_owned__;%s}; '
               'if keep__ { %s.push(x_owned__); } else { %s.push(x_owned__); } }') % (a, ta, b, tb, recv, x, inner, a, b)
        body = body[:mo.start()] + rep + body[b_close + 1 + tail.end():]
        log.append('R17')

    # R2f -- `for (I, X) in V.iter_mut().enumerate() {` -> range loop over the indices binding a mutable
    # reference to the I-th element (the definition of enumerate over iter_mut); R1 then turns it into a while loop
    def r2f(mo):
        log.append('R2f')
        iv, pat, vec = mo.group(1), mo.group(2), mo.group(3)
        return 'for %s in 0..%s.len() { let %s = &mut %s[%s];' % (iv, vec, pat, vec, iv)
    body = re.sub(r'\bfor\s+\(\s*(\w+)\s*,\s*(\w+)\s*\)\s+in\s+([a-z_]\w*)\.iter_mut\(\)\.enumerate\(\)\s*\{', r2f, body)

    # R2e -- `for X in V.iter_mut() {` -> index loop binding a mutable reference to the element
    def r2e(mo):
        log.append('R2e')
        pat, vec = mo.group(1), mo.group(2)
        iv = 'i_' + pat
        return 'for %s in 0..%s.len() { let %s = &mut %s[%s];' % (iv, vec, pat, vec, iv)
    body = re.sub(r'\bfor\s+(\w+)\s+in\s+([a-z_]\w*)\.iter_mut\(\)\s*\{', r2e, body)

    # R10 -- drain(..)
    def r10(mo):
        log.append('R10')
        pat, vec = mo.group(1), mo.group(2)
        return ('let mut drained__ = Vec::new(); core::mem::swap(%s, &mut drained__); '
                'while drained__.len() > 0 { let %s = drained__.remove(0);') % (vec, pat)
    body = re.sub(r'\bfor\s+(\w+)\s+in\s+(\w+)\.drain\(\.\.\)\s*\{', r10, body)

    # R1 -- range loops become while loops (Rust's own Range::next desugaring)
    def r1(mo):
        log.append('R1')
        v, lo, hi = mo.group(1), mo.group(2), mo.group(3)
        return 'let mut %s__ = %s; while %s__ < %s { let %s = %s__; %s__ += 1;' % (v, lo, v, hi, v, v, v)
    body = _FOR_RANGE.sub(r1, body)

    # R3 -- smallvec
    n = body.count('smallvec![]')
    if n:
        body = body.replace('smallvec![]', 'Vec::new()')
        log.extend(['R3'] * n)
    body, n = re.subn(r'SmallVec<\[([^;\]]+);\s*\d+\]>', r'Vec<\1>', body)
    log.extend(['R3'] * n)
    for alias in ('ChessMoveList', 'PieceTargetList'):
        n = len(re.findall(r'\b%s::new\(\)' % alias, body))
        if n:
            body = re.sub(r'\b%s::new\(\)' % alias, 'Vec::new()', body)
            log.extend(['R3'] * n)

    # R6 -- formatting arguments of panic! messages are dropped (Display impls are not extracted)
    def r6_panic(mo):
        log.append('R6')
        return 'panic!("%s")' % mo.group(1).replace('{}', '').replace('{:?}', '').rstrip(': ')
    body = re.sub(r'panic!\("([^"]*)",[^;]*?\)(?=\s*[,;}\n])', r6_panic, body)

    # R13 -- opaque map type
    body, n = re.subn(r'\bFxHashMap::default\(\)', 'PositionCountMap::default()', body)
    log.extend(['R13'] * n)

    return body


def rewrite_sig(head, ret_name, log):
    """R8: name the result.  R3 on types in the signature."""
    head, n = re.subn(r'SmallVec<\[([^;\]]+);\s*\d+\]>', r'Vec<\1>', head)
    log.extend(['R3'] * n)
    if ret_name:
        m = re.search(r'->\s*(.+)$', head, re.S)
        if not m:
            raise ExtractError('R8: no return type in `%s`' % head)
        head = head[:m.start()] + '-> (%s: %s)' % (ret_name, m.group(1).strip())
        log.append('R8')
    return head


def rewrite_item(text, log):
    """R3/R6/R11/R12/R13 on non-function items."""
    text, n = re.subn(r'\bFxHashMap<\(u64,\s*u8\),\s*u8>', 'PositionCountMap', text)
    log.extend(['R13'] * n)
    text, n = re.subn(r'\bFxHashMap<\(u8,\s*u64\),\s*Bitboard>', 'AttackCacheMap', text)
    log.extend(['R13'] * n)
    text, n = re.subn(r'\bLruCache<\(u64,\s*u8\),\s*ChessMoveList>', 'MoveCacheMap', text)
    log.extend(['R13'] * n)
    text, n = re.subn(r'\bArc<RwLock<FxHashMap<SearchNode,\s*SearchResult>>>', 'SharedSearchCache', text)
    log.extend(['R13'] * n)
    text, n = re.subn(r'\bArc<RwLock<usize>>', 'SharedCounter', text)
    log.extend(['R13'] * n)
    text, n = re.subn(r'SmallVec<\[([^;\]]+);\s*\d+\]>', r'Vec<\1>', text)
    log.extend(['R3'] * n)
    text, n = re.subn(r'\[&str;', "[&'static str;", text)
    log.extend(['R11'] * n)
    text, n = re.subn(r'(?ms)^\s*#\[error\(.*?\)\]\s*?\n', '', text)
    log.extend(['R6'] * n)
    return text


def publicise_fields(text, log):
    """R12: make private struct fields pub(crate)-visible (visibility only)."""
    def fix(mo):
        log.append('R12')
        return mo.group(1) + 'pub ' + mo.group(2)
    return re.sub(r'(?m)^(\s+)((?!pub\b)(?!//)[a-z_]\w*\s*:)', fix, text)


# --------------------------------------------------------------------------
# loops in a (rewritten) body: positions where `invariant` text may be woven

def loop_heads(body):
    """Offsets (just before the `{` of the loop body) of every `while`/`loop`
    in textual order."""
    skip = _skip_map(body)
    heads = []
    for mo in re.finditer(r'\b(while|loop)\b', body):
        if skip[mo.start()]:
            continue
        # find the `{` that opens the loop body: first `{` at paren depth 0 after the keyword
        i = mo.end()
        pd = 0
        while i < len(body):
            if skip[i]:
                i += 1
                continue
            ch = body[i]
            if ch in '([':
                pd += 1
            elif ch in ')]':
                pd -= 1
            elif ch == '{' and pd == 0:
                break
            i += 1
        else:
            raise ExtractError('loop body not found')
        heads.append(i)
    return heads


# --------------------------------------------------------------------------
# statement splitter: locate the tail expression of a (rewritten) body

_BLOCK_KW = re.compile(r'(if|match|while|for|loop|unsafe)\b|\{')


def split_statements(body):
    """Return list of (start, end, ends_with_semicolon) for the depth-0
    statements of `body` (a function body without its outer braces)."""
    skip = _skip_map(body)
    n = len(body)
    stmts = []
    i = 0
    while i < n:
        while i < n and (body[i].isspace() or skip[i]):
            i += 1
        if i >= n:
            break
        start = i
        blocky = _BLOCK_KW.match(body, i) is not None
        j = i
        end = None
        semi = False
        while j < n:
            if skip[j]:
                j += 1
                continue
            ch = body[j]
            if ch in '([':
                j = match_brace(body, j, skip) + 1
                continue
            if ch == '{':
                c = match_brace(body, j, skip)
                j = c + 1
                if blocky:
                    # statement ends here unless followed by `else`, a method call, `?` or an operator
                    k = j
                    while k < n and (body[k].isspace() or skip[k]):
                        k += 1
                    rest = body[k:k + 5]
                    if k >= n:
                        end = j
                        break
                    if rest.startswith('else') or rest[0] in '.?;':
                        continue
                    end = j
                    break
                continue
            if ch == ';':
                end = j + 1
                semi = True
                break
            j += 1
        if end is None:
            end = n
            # strip trailing whitespace
            while end > start and body[end - 1].isspace():
                end -= 1
        stmts.append((start, end, semi))
        i = end
    return stmts


def tail_expr_span(body):
    """(start, end) of the tail expression, or None if the body ends with `;`."""
    st = split_statements(body)
    if not st:
        return None
    s, e, semi = st[-1]
    if semi:
        return None
    return (s, e)
