"""R18 -- alpha-renaming of parameters and let-bound locals back to the names the contracts were
written against.

Contracts, loop invariants and proof hints necessarily mention parameter and local names.  A
behaviour-preserving rename in /repo would otherwise make the woven file fail to *compile* (never
a wrong verdict, but an undecided run).  `contracts/names.json` records, for every function under
contract, the parameter names (in order) and the names bound by `let` / `for` / `if let Some(..)`
patterns (in textual order) on the reference tree.  At weave time, if the current function has the
same NUMBER of parameters and bindings but some names differ, those identifiers are renamed
(whole-word, outside comments and string literals) to the recorded ones -- an alpha-conversion,
logged as R18.  It is applied only when it is unambiguous:

  * the lists have equal length (same shape);
  * a differing recorded name does not occur anywhere in the current function text;
  * a differing current name does not occur in the recorded list (so a mere REORDERING of bindings is
    never "renamed");
otherwise nothing is renamed.
"""
import re

from . import extract as ex

_LET = re.compile(r'\blet\s+(?:mut\s+)?([A-Za-z_]\w*)\b(?!\s*\()')
_LET_TUPLE = re.compile(r'\blet\s+\(([^()=]*)\)\s*(?::[^=]*)?=')
_FOR = re.compile(r'\bfor\s+(?:&\s*)?([A-Za-z_]\w*)\s+in\b')
_FOR_TUPLE = re.compile(r'\bfor\s+&?\(([^()]*)\)\s+in\b')
_IFLET = re.compile(r'\b(?:if|while)\s+let\s+Some\(\s*(?:mut\s+)?([A-Za-z_]\w*)\s*\)')
_KEYWORDS = {'mut', 'ref', '_'}


def params_of(head):
    """parameter identifiers of a fn signature (text up to the body), `self` excluded"""
    o = head.index('(')
    skip = ex._skip_map(head)
    c = ex.match_brace(head, o, skip)
    inner = head[o + 1:c]
    out = []
    depth = 0
    cur = ''
    parts = []
    for ch in inner:
        if ch in '(<[':
            depth += 1
        elif ch in ')>]':
            depth -= 1
        if ch == ',' and depth == 0:
            parts.append(cur)
            cur = ''
        else:
            cur += ch
    if cur.strip():
        parts.append(cur)
    for p in parts:
        p = p.strip()
        if not p or 'self' in p.split(':')[0]:
            continue
        m = re.match(r'(?:mut\s+)?([A-Za-z_]\w*)\s*:', p)
        if m:
            out.append(m.group(1))
    return out


def bindings_of(body):
    """(offset, name) of every simple binding in textual order"""
    skip = ex._skip_map(body)
    found = []
    for rx in (_LET, _FOR, _IFLET):
        for m in rx.finditer(body):
            if not skip[m.start()] and m.group(1) not in _KEYWORDS:
                found.append((m.start(1), m.group(1)))
    for rx in (_LET_TUPLE, _FOR_TUPLE):
        for m in rx.finditer(body):
            if skip[m.start()]:
                continue
            for mm in re.finditer(r'(?:mut\s+|&\s*)?([A-Za-z_]\w*)', m.group(1)):
                if mm.group(1) not in _KEYWORDS:
                    found.append((m.start(1) + mm.start(1), mm.group(1)))
    found.sort()
    return [n for _o, n in found]


def snapshot(head, body):
    return {'params': params_of(head), 'lets': bindings_of(body)}


def _rename(text, mapping):
    if not mapping:
        return text
    skip = ex._skip_map(text)
    out = []
    last = 0
    for m in re.finditer(r'[A-Za-z_]\w*', text):
        if skip[m.start()]:
            continue
        w = m.group(0)
        if w in mapping:
            # not a field access / method name / path segment
            prev = text[m.start() - 1] if m.start() > 0 else ' '
            if prev == '.' or text[max(0, m.start() - 2):m.start()] == '::':
                continue
            nxt = text[m.end():m.end() + 2]
            if nxt.startswith('::') or nxt.startswith('!'):
                continue
            out.append(text[last:m.start()])
            out.append(mapping[w])
            last = m.end()
    out.append(text[last:])
    return ''.join(out)


def restore_names(head, body, recorded, log):
    """-> (head, body) with recorded names restored where that is an unambiguous alpha-conversion"""
    if not recorded:
        return head, body
    cur = snapshot(head, body)
    mapping = {}
    for key in ('params', 'lets'):
        a, r = cur[key], recorded.get(key, [])
        if len(a) != len(r):
            continue
        aset, rset = set(a), set(r)
        for x, y in zip(a, r):
            if x == y:
                continue
            if x in rset or y in aset:
                continue
            if x in mapping and mapping[x] != y:
                return head, body          # inconsistent: give up entirely
            mapping[x] = y
    if not mapping:
        return head, body
    whole = head + '\n' + body
    for new in mapping.values():
        for m in re.finditer(r'\b%s\b' % re.escape(new), whole):
            prev = whole[m.start() - 1] if m.start() > 0 else ' '
            if prev == '.' or whole[max(0, m.start() - 2):m.start()] == '::' or whole[m.end():m.end() + 1] == '(':
                continue                   # a field, method or path segment of that name is fine
            return head, body              # the recorded name is in use for something else
    log.append('R18')
    return _rename(head, mapping), _rename(body, mapping)
