"""Weaver: template (contracts + directives) + extracted real code -> one Verus file.

Directives (a line whose first non-blank characters are `//@`):

  //@include <template>                  textual inclusion of another template
  //@item <file> <kind> <name> [in=<Owner>] [pubfields]
                                         verbatim item (struct/enum/const/type) from /repo
  //@macro_impls <file>                  R5: expand the single-arm operator macros of bitboard.rs
  //@fn <file> <qual> [ret=<r>] [assumed] [attrs="..."]
        <contract text: requires / ensures / decreases ...>
  //@entry                               text inserted right after the opening brace
        <text>
  //@loop <k>                            text inserted at the head of the k-th loop (1-based,
        <invariant ... decreases ...>    textual order in the rewritten body)
  //@before <literal>                    text inserted before / after the statement that starts
  //@after <literal>                     with <literal> (must match exactly once)
        <text>
  //@end

Only *insertions* are made into the extracted text, so removing the inserted
segments gives back the extracted (rewritten) body -- checked on every weave.
"""
import os
import re
import shlex

from . import extract as ex
from . import alpha
from . import inline


class WeaveError(Exception):
    pass


class FnRecord:
    def __init__(self):
        self.qual = None
        self.file = None
        self.sha = None
        self.rules = []
        self.assumed = False
        self.line_start = self.line_end = 0
        self.body_sha = None


class Weaver:
    def __init__(self, repo, contracts_dir):
        self.repo = repo
        self.cdir = contracts_dir
        self.sources = {}
        self.fn_records = []
        self.item_records = []
        self.templates_used = []
        self.lost_anchors = []
        self.names_seen = {}
        npath = os.path.join(contracts_dir, 'names.json')
        self.names = {}
        if os.path.exists(npath):
            import json
            try:
                self.names = json.load(open(npath))
            except Exception:
                self.names = {}

    def source(self, rel):
        if rel not in self.sources:
            p = os.path.join(self.repo, rel)
            if not os.path.exists(p):
                raise ex.ExtractError('source file %s missing' % rel)
            self.sources[rel] = ex.Source(rel, open(p).read())
        return self.sources[rel]

    # ------------------------------------------------------------------
    def read_template(self, name, seen=None):
        seen = seen if seen is not None else []
        if name in seen:
            return []
        seen.append(name)
        self.templates_used.append(name)
        path = os.path.join(self.cdir, name)
        lines = open(path).read().split('\n')
        out = []
        for ln in lines:
            s = ln.strip()
            if s.startswith('//@include '):
                out.extend(self.read_template(s.split(None, 1)[1].strip(), seen))
            else:
                out.append(ln)
        return out

    # ------------------------------------------------------------------
    def weave(self, template_name):
        lines = self.read_template(template_name)
        # names the templates put under contract or define themselves: never inlined (R19)
        self.covered = set()
        for ln in lines:
            st = ln.strip()
            if st.startswith('//@fn '):
                parts = st.split()
                if len(parts) >= 3:
                    self.covered.add(parts[2].split('::')[-1])
            else:
                for mm in re.finditer(r'\bfn\s+([A-Za-z_]\w*)', ln):
                    self.covered.add(mm.group(1))
        out = []       # output lines
        i = 0
        n = len(lines)
        while i < n:
            ln = lines[i]
            s = ln.strip()
            if not s.startswith('//@'):
                out.append(ln)
                i += 1
                continue
            parts = shlex.split(s[3:])
            cmd = parts[0]
            if cmd == 'item':
                out.extend(self._item(parts[1:]))
                i += 1
            elif cmd == 'macro_impls':
                out.extend(self._macro_impls(parts[1]))
                i += 1
            elif cmd == 'fn':
                # collect the block until //@end
                j = i + 1
                block = []
                while j < n and lines[j].strip() != '//@end':
                    block.append(lines[j])
                    j += 1
                if j >= n:
                    raise WeaveError('%s: //@fn %s without //@end' % (template_name, parts[1:]))
                indent = ln[:len(ln) - len(ln.lstrip())]
                start_line = len(out) + 1
                emitted, rec = self._fn(parts[1:], block, indent)
                rec.line_start = start_line
                out.extend(emitted)
                rec.line_end = len(out)
                self.fn_records.append(rec)
                i = j + 1
            else:
                raise WeaveError('%s: unknown directive %s' % (template_name, s))
        return '\n'.join(out) + '\n'

    # ------------------------------------------------------------------
    def _item(self, args):
        rel, kind, name = args[0], args[1], args[2]
        opts = args[3:]
        owner = None
        for o in opts:
            if o.startswith('in='):
                owner = o[3:]
        src = self.source(rel)
        it = src.find_item(kind, name, owner)
        log = []
        text = ex.rewrite_item(it.full, log)
        attrs = it.attrs
        attrs = re.sub(r'(?m)^\s*///.*\n', '', attrs)
        attrs = re.sub(r'(?m)^\s*//.*\n', '', attrs)
        if 'Error' in attrs and 'derive' in attrs:
            attrs = re.sub(r'\bError,\s*', '', attrs)
            log.append('R6')
        if '#[rustfmt::skip]' in attrs:
            attrs = attrs.replace('#[rustfmt::skip]', '')
        if 'pubfields' in opts:
            text = ex.publicise_fields(text, log)
        for o in opts:
            if o.startswith('value=') and kind == 'const':
                # R15: `const N: T = EXPR;` -> `exec const N: T ensures N == <value> { EXPR }`; Verus PROVES the
                # stated value from the real initialiser (needed where the initialiser uses an exec-only
                # operation such as `/` on a signed type)
                mm = re.match(r'^(\s*(?:pub(?:\([^)]*\))?\s+)?)const\s+(\w+)\s*:\s*([^=]+?)\s*=\s*(.*?);\s*$', text, re.S)
                if not mm:
                    raise ex.ExtractError('R15: const %s has an unexpected shape' % name)
                text = '%sexec const %s: %s\n    ensures %s == %s,\n{ %s }' % (mm.group(1), mm.group(2), mm.group(3), mm.group(2), o[6:], mm.group(4))
                log.append('R15')
        for o in opts:
            if o.startswith('derive+='):
                # R6: the hand-written fmt::Debug impl is dropped; derive one instead (formatting only)
                if '#[derive(' not in attrs:
                    raise ex.ExtractError('R6: no derive list on %s' % name)
                attrs = attrs.replace('#[derive(', '#[derive(%s, ' % o[8:], 1)
                log.append('R6')
        post = ''
        if 'clone=assumed' in opts:
            # A-derive: `#[derive(Clone)]` is a structural copy.  The derive is replaced by an
            # external_body impl carrying that contract (ASSUMED, listed in the evidence).
            if not re.search(r'#\[derive\([^)]*\bClone\b', attrs):
                raise ex.ExtractError('clone=assumed: %s does not derive Clone' % name)
            attrs = re.sub(r'(#\[derive\([^)]*?)\bClone\b\s*,?\s*', r'\1', attrs, count=1)
            post = ('\nimpl Clone for %s {\n    #[verifier::external_body]\n    fn clone(&self) -> (r: Self)\n'
                    '        ensures r == *self,\n    { unimplemented!() }\n}\n') % name
            log.append('A-derive-clone')
        self.item_records.append({'file': rel, 'kind': kind, 'name': (owner + '::' if owner else '') + name,
                                  'sha256': it.sha(), 'rules': sorted(set(log))})
        return (attrs + text + post).split('\n')

    def _macro_impls(self, rel):
        """R5: token-substitute the single-arm operator macros of bitboard.rs."""
        src = self.source(rel)
        t = src.text
        macros = {}
        for m in re.finditer(r'macro_rules!\s*(\w+)\s*\{\s*\(([^)]*)\)\s*=>\s*\{', t):
            name = m.group(1)
            params = [p.strip().split(':')[0] for p in m.group(2).split(',')]
            o = m.end() - 1
            c = ex.match_brace(t, o, src.skip)
            macros[name] = (params, t[o + 1:c])
        out = []
        count = 0
        for m in re.finditer(r'(?m)^(impl_\w+)!\(([^)]*)\);', t):
            if m.group(1) not in macros:
                raise ex.ExtractError('R5: macro %s not defined in %s' % (m.group(1), rel))
            params, body = macros[m.group(1)]
            args = [a.strip() for a in m.group(2).split(',')]
            if len(args) != len(params):
                raise ex.ExtractError('R5: arity mismatch for %s' % m.group(0))
            txt = body
            for p, a in zip(params, args):
                txt = txt.replace(p, a)
            out.append('// R5 expansion of ' + m.group(0))
            out.extend(txt.strip('\n').split('\n'))
            count += 1
        if count == 0:
            raise ex.ExtractError('R5: no operator macro invocation found in ' + rel)
        self.item_records.append({'file': rel, 'kind': 'macro_impls', 'name': 'impl_*_op!', 'count': count,
                                  'rules': ['R5']})
        return out

    # ------------------------------------------------------------------
    def _fn(self, args, block, indent):
        rel, qual = args[0], args[1]
        ret = None
        assumed = False
        extra_attrs = ''
        vis = None
        r14 = None
        for o in args[2:]:
            if o.startswith('ret='):
                ret = o[4:]
            elif o == 'assumed':
                assumed = True
            elif o.startswith('attrs='):
                extra_attrs = o[6:]
            elif o.startswith('vis='):
                vis = o[4:]
            elif o.startswith('r14='):
                r14 = o[4:]
        src = self.source(rel)
        it = src.find_fn(qual)
        rec = FnRecord()
        rec.qual, rec.file, rec.sha, rec.assumed = qual, rel, it.sha(), assumed
        log = rec.rules
        # R18: restore the parameter / local names the contracts were written against (alpha-conversion)
        nkey = rel + '::' + qual
        self.names_seen[nkey] = alpha.snapshot(it.head, it.body)
        it.head, it.body = alpha.restore_names(it.head, it.body, self.names.get(nkey), log)
        if not assumed:
            # R19: beta-reduce calls to private helpers that have no contract (e.g. freshly extracted ones)
            it.body = inline.inline_helpers(self.repo, it.body, self.covered, qual.split('::')[-1], log)
        head = ex.rewrite_sig(it.head, ret, log)
        if vis is not None and not head.startswith('pub'):
            head = vis + ' ' + head
        # split block into contract + body directives
        sections = [('contract', None, [])]
        for ln in block:
            s = ln.strip()
            if s.startswith('//@'):
                parts = s[3:].split(None, 1)
                sections.append((parts[0], parts[1].strip() if len(parts) > 1 else None, []))
            else:
                sections[-1][2].append(ln)
        contract = '\n'.join(sections[0][2]).rstrip()
        out = []
        if extra_attrs:
            out.append(indent + extra_attrs)
        if assumed:
            out.append(indent + '#[verifier::external_body]')
        out.extend((indent + h) for h in head.split('\n'))
        if contract.strip():
            out.extend(contract.split('\n'))
        if assumed:
            out.append(indent + '{ unimplemented!() }')
            return out, rec
        mut_refs = set(re.findall(r'\b([a-z_]\w*)\s*:\s*&\s*mut\b', it.head))
        body = ex.rewrite_body(it.body, log, r14, mut_refs)
        # insertion list: (offset, text)
        ins = []
        heads = None
        for (kind, arg, txt) in sections[1:]:
            text = '\n'.join(txt).rstrip('\n')
            if kind == 'entry':
                ins.append((0, '\n' + text))
            elif kind == 'exit':
                span = ex.tail_expr_span(body)
                if span is None:
                    # unit function: hint goes at the very end
                    ins.append((len(body.rstrip()), '\n' + text + '\n'))
                else:
                    ins.append((span[0], 'let ret__ = '))
                    ins.append((span[1], ';\n' + text + '\n' + indent + '    ret__'))
            elif kind == 'loop':
                if heads is None:
                    heads = ex.loop_heads(body)
                k = int(arg)
                if k < 1 or k > len(heads):
                    raise ex.ExtractError('%s: loop %d not present (%d loops)' % (qual, k, len(heads)))
                ins.append((heads[k - 1], '\n' + text + '\n' + indent + '    '))
            elif kind == 'loopbody':
                if heads is None:
                    heads = ex.loop_heads(body)
                k = int(arg)
                if k < 1 or k > len(heads):
                    raise ex.ExtractError('%s: loop %d not present (%d loops)' % (qual, k, len(heads)))
                pos = heads[k - 1] + 1
                # skip the R1 prologue `let P = P__; P__ += 1;`
                mm0 = re.match(r'\s*let\s+\w+\s*=\s*drained__\.remove\(0\);', body[pos:])
                if mm0:
                    pos += mm0.end()
                mm = re.match(r'\s*let\s+(\w+)\s*=\s*(\w+)__;\s*\2__\s*\+=\s*1;', body[pos:])
                if mm:
                    pos += mm.end()
                    # and the R2 element binding `let P = ARR[i];`
                    mm2 = re.match(r'\s*let\s+[^=;]+=\s*[\w.]+\[\w+\];', body[pos:])
                    if mm2:
                        pos += mm2.end()
                ins.append((pos, '\n' + text + '\n'))
            elif re.fullmatch(r'(before|after)\d*\??', kind):
                lit = arg
                # occurrences inside text inlined by R19 (between /*R19<*/ and /*R19>*/) are not anchors
                occs = []
                depth_r19 = 0
                for mm_ in re.finditer(r'/\*R19<\*/|/\*R19>\*/|' + re.escape(lit), body):
                    tok = mm_.group(0)
                    if tok == '/*R19<*/':
                        depth_r19 += 1
                    elif tok == '/*R19>*/':
                        depth_r19 -= 1
                    elif depth_r19 == 0:
                        occs.append(mm_.start())
                cnt = len(occs)
                if kind.endswith('?'):
                    # optional anchor: the hint is dropped when the statement is not there (or not unique)
                    kind = kind[:-1]
                    if cnt != 1:
                        continue
                mk = re.fullmatch(r'(before|after)(\d+)', kind)
                if mk:
                    # `//@after2 <literal>`: the 2nd textual occurrence of the anchor
                    kind, occ = mk.group(1), int(mk.group(2))
                    if occ < 1 or occ > cnt:
                        raise ex.ExtractError('%s: anchor `%s` occurrence %d of %d' % (qual, lit, occ, cnt))
                    pos = occs[occ - 1]
                else:
                    if cnt != 1:
                        raise ex.ExtractError('%s: anchor `%s` matches %d times' % (qual, lit, cnt))
                    pos = occs[0]
                if kind == 'before':
                    # start of the line holding the anchor
                    pos = body.rfind('\n', 0, pos) + 1
                    ins.append((pos, text + '\n'))
                else:
                    # end of the statement: the `;` closing it at nesting depth 0
                    skip = ex._skip_map(body)
                    j = pos
                    d = 0
                    while j < len(body):
                        if not skip[j]:
                            if body[j] in '({[':
                                d += 1
                            elif body[j] in ')}]':
                                d -= 1
                            elif body[j] == ';' and d == 0:
                                break
                        j += 1
                    if j >= len(body):
                        raise ex.ExtractError('%s: end of anchor statement `%s` not found' % (qual, lit))
                    ins.append((j + 1, '\n' + text))
            else:
                raise WeaveError('%s: unknown fn section %s' % (qual, kind))
        ins.sort(key=lambda p: p[0])
        pieces = []
        last = 0
        src_only = []
        for (off, text) in ins:
            pieces.append(body[last:off])
            src_only.append(body[last:off])
            pieces.append(text)
            last = off
        pieces.append(body[last:])
        src_only.append(body[last:])
        if ''.join(src_only) != body:
            raise WeaveError('weave inverse check failed for ' + qual)
        woven = ''.join(pieces)
        out.append(indent + '{' + woven + '}')
        # flatten multi-line strings into lines
        flat = []
        for o in out:
            flat.extend(o.split('\n'))
        import hashlib
        rec.body_sha = hashlib.sha256(body.encode()).hexdigest()
        return flat, rec


# ----------------------------------------------------------------------
# generic scan of the woven text: every fn item with its line span and mode

_FN_RE = re.compile(r'(?m)^[ \t]*((?:#\[[^\]]*\]\s*)*)((?:pub(?:\([^)]*\))?\s+)?(?:open\s+|closed\s+|uninterp\s+|broadcast\s+)*(spec|proof|exec)?\s*(?:const\s+)?fn\s+(\w+))')


def scan_fns(text):
    """Return list of dicts: name, owner (impl type or None), mode, line_start, line_end, text."""
    skip = ex._skip_map(text)
    # impl spans for owner names
    impls = []
    for m in re.finditer(r'(?m)^[ \t]*impl(?:<[^>]*>)?\s+(?:([\w:<>]+)\s+for\s+)?(\w+)[^{;]*\{', text):
        if skip[m.start()]:
            continue
        o = m.end() - 1
        try:
            c = ex.match_brace(text, o, skip)
        except ex.ExtractError:
            continue
        impls.append((o, c, m.group(2), m.group(1)))
    res = []
    for m in _FN_RE.finditer(text):
        if skip[m.start(2)]:
            continue
        mode = m.group(3) or 'exec'
        name = m.group(4)
        # find end: `;` (uninterp / trait decl) or body
        p_open = text.find('(', m.end())
        if p_open < 0:
            continue
        p_close = ex.match_brace(text, p_open, skip)
        j = p_close + 1
        end = None
        body_open = None
        while j < len(text):
            if skip[j]:
                j += 1
                continue
            ch = text[j]
            if ch == ';':
                end = j
                break
            if ch == '{':
                c = ex.match_brace(text, j, skip)
                # a brace group inside the contract (`==> { &&& ... },`) is followed by `,` or an
                # operator; the function body is followed by the next item
                k = c + 1
                while k < len(text) and (text[k].isspace() or skip[k]):
                    k += 1
                if k < len(text) and text[k] in ',.?)]&|=<>+-*/:;' :
                    j = c + 1
                    continue
                end = c
                body_open = j
                break
            if ch in '([':
                j = ex.match_brace(text, j, skip) + 1
                continue
            j += 1
        if end is None:
            continue
        owner = None
        trait = None
        for (o, c, ty, tr) in impls:
            if o < m.start() < c:
                owner, trait = ty, tr
        start = m.start()
        res.append({
            'name': name, 'owner': owner, 'trait': trait, 'mode': mode,
            'attrs': m.group(1) or '',
            'line_start': text.count('\n', 0, start) + 1,
            'line_end': text.count('\n', 0, end) + 1,
            'start': start, 'end': end + 1, 'body_open': body_open,
            'text': text[start:end + 1],
        })
    return res
