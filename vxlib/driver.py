"""vx driver: weave -> verus -> classify -> evidence.

Exit codes of `vx check`:
  0  every obligation serving the property was discharged (known findings printed)
  1  a reference obligation is refuted: VIOLATION line + replay file
  2  undecided (lost anchor, unsupported construct, front-end error, resource limit,
     failing obligation that is not in the reference) -- never an alarm
"""
import hashlib
import json
import os
import re
import shutil
import subprocess
import sys
import time

from . import extract as ex
from . import weave as wv

VERIF = os.path.dirname(os.path.dirname(os.path.abspath(__file__)))
REPO = os.environ.get('VX_REPO', '/repo')
CONTRACTS = os.path.join(VERIF, 'contracts')
WORK = os.path.join(VERIF, 'work') if REPO == '/repo' else os.path.join(VERIF, 'work', 'alt_' + hashlib.sha256(REPO.encode()).hexdigest()[:10])
EVID = os.path.join(VERIF, 'evidence') if REPO == '/repo' else os.path.join(WORK, 'evidence')
REPLAY = os.path.join(VERIF, 'replay') if REPO == '/repo' else os.path.join(WORK, 'replay')


def load_json(p):
    with open(p) as f:
        return json.load(f)


PROPS = None


def props():
    global PROPS
    if PROPS is None:
        PROPS = load_json(os.path.join(CONTRACTS, 'properties.json'))
    return PROPS


# ---------------------------------------------------------------------------
class Undecided(Exception):
    pass


def fn_key(f):
    return (f['owner'] + '::' if f['owner'] else '') + f['name']


def qual_key(q):
    # `Trait@Type::name` -> `Type::name`
    if '@' in q:
        q = q.split('@', 1)[1]
    return q


OP_TRAITS = {'BitAnd', 'BitOr', 'BitXor', 'Add', 'Sub', 'BitAndAssign', 'BitOrAssign', 'BitXorAssign',
             'Shl<usize>', 'Shr<usize>', 'ShlAssign<usize>', 'ShrAssign<usize>', 'Not', 'Shl', 'Shr', 'ShlAssign', 'ShrAssign'}


def compute_closure(fns, roots):
    """fns: scan_fns output.  roots: list of names (bare or Owner::name).
    Over-approximate call graph by identifier occurrence."""
    by_bare = {}
    for f in fns:
        by_bare.setdefault(f['name'], []).append(f)
    by_key = {}
    for f in fns:
        by_key.setdefault(fn_key(f), []).append(f)
    work = []
    for r in roots:
        r = qual_key(r)
        if r in by_key:
            work.extend(by_key[r])
        elif r in by_bare:
            work.extend(by_bare[r])
        else:
            raise Undecided('root function %s not present in woven unit' % r)
    # operator impls are used through operator syntax, never by name: always part of the closure
    for f in fns:
        if f.get('trait') in OP_TRAITS:
            work.append(f)
    seen = set()
    out = []
    ident = re.compile(r'\b([A-Za-z_]\w*)\s*\(')
    while work:
        f = work.pop()
        if id(f) in seen:
            continue
        seen.add(id(f))
        out.append(f)
        names = set(ident.findall(f['text']))
        # lemmas pulled in without a call syntax: `broadcast use a, b::c;`
        for grp in re.findall(r'\bbroadcast\s+use\s+([^;]+);', f['text']):
            for nm in grp.split(','):
                names.add(nm.strip().split('::')[-1])
        for name in names:
            if name in by_bare:
                for g in by_bare[name]:
                    if id(g) not in seen and g is not f:
                        work.append(g)
    return out


def mark_external(text, fns, keep):
    """Insert #[verifier::external_body] before every exec/proof fn not in `keep`."""
    keep_ids = set(id(f) for f in keep)
    edits = []
    for f in fns:
        if f['mode'] == 'spec' or id(f) in keep_ids:
            continue
        if 'external_body' in f['attrs']:
            continue
        if f['text'].rstrip().endswith(';'):
            continue
        edits.append(f['start'])
    edits.sort(reverse=True)
    added_lines_before = []
    for off in edits:
        ls = text.rfind('\n', 0, off) + 1
        indent = text[ls:off] if text[ls:off].strip() == '' else ''
        text = text[:off] + '#[verifier::external_body] ' + text[off:]
    return text


# ---------------------------------------------------------------------------
def run_verus(path, rlimit=None, extra=None, timeout=1500):
    cmd = ['verus', path, '--output-json', '--time-expanded', '--multiple-errors', '8',
           '--triggers-mode', 'silent', '--num-threads', '16']
    if rlimit:
        cmd += ['--rlimit', str(rlimit)]
    if extra:
        cmd += extra
    cmd += ['--', '--error-format=json']
    t0 = time.time()
    try:
        p = subprocess.run(cmd, stdout=subprocess.PIPE, stderr=subprocess.PIPE, timeout=timeout,
                           cwd=os.path.dirname(path), text=True)
    except subprocess.TimeoutExpired:
        # make sure no z3 is left behind
        subprocess.run("ps -eo pid,args | grep -E 'verus/[.]/z3|rust_verify' | grep -v grep | awk '{print $1}' | xargs -r kill",
                       shell=True)
        raise Undecided('verus timed out after %ds' % timeout)
    wall = time.time() - t0
    stats = None
    try:
        stats = json.loads(p.stdout)
    except Exception:
        pass
    diags = []
    for ln in p.stderr.split('\n'):
        ln = ln.strip()
        if ln.startswith('{'):
            try:
                d = json.loads(ln)
                if d.get('$message_type') == 'diagnostic':
                    diags.append(d)
            except Exception:
                pass
    return {'cmd': ' '.join(cmd), 'rc': p.returncode, 'stats': stats, 'diags': diags, 'wall': wall,
            'stderr': p.stderr}


MAX_SHARDS = int(os.environ.get('VX_SHARDS', '12'))


def load_weights():
    p = os.path.join(CONTRACTS, 'weights.json')
    if os.path.exists(p):
        try:
            return load_json(p)
        except Exception:
            return {}
    return {}


def raise_undecided_frontend(r):
    fe = []
    for d in r['diags']:
        cls, kind = classify_diag(d)
        if cls == 'frontend':
            fe.append(d.get('rendered', kind))
    raise Undecided('verus front end rejected the woven file (rc=%s): %s' % (r['rc'], (fe[0] if fe else r['stderr'][-1500:])))


PROOF_FAIL_KINDS = [
    ('postcondition not satisfied', 'postcondition'),
    ('precondition not satisfied', 'precondition'),
    ('invariant not satisfied at end of loop body', 'invariant-preserved'),
    ('invariant not satisfied before loop', 'invariant-init'),
    ('loop invariant not satisfied', 'invariant-at-exit'),
    ('loop ensures not satisfied', 'invariant-at-exit'),
    ('invariant not satisfied', 'invariant'),
    ('assertion failed', 'assertion'),
    ('assertion not satisfied', 'assertion'),
    ('bitvector assertion not satisfied', 'assertion-bitvector'),
    ('possible arithmetic underflow/overflow', 'overflow'),
    ('possible bit shift underflow/overflow', 'shift-range'),
    ('possible division by zero', 'div-zero'),
    ('decreases not satisfied', 'termination'),
    ('could not prove termination', 'termination'),
    ('recommendation not met', 'recommends'),
    ('unreachable', 'unreachable'),
    ('unwrap', 'precondition'),
    ('index out of bounds', 'index-bounds'),
    ('possible', 'arith'),
]
RESOURCE_KINDS = ['Resource limit (rlimit) exceeded', 'resource limit', 'timed out', 'could not finish']


def classify_diag(d):
    """-> ('proof', kind) | ('resource', msg) | ('frontend', msg) | ('note', msg)"""
    msg = d.get('message', '')
    lvl = d.get('level')
    if lvl != 'error':
        return ('note', msg)
    if msg.startswith('aborting due to'):
        return ('note', msg)
    for pat in RESOURCE_KINDS:
        if pat.lower() in msg.lower():
            return ('resource', msg)
    for pat, kind in PROOF_FAIL_KINDS:
        if pat in msg:
            return ('proof', kind)
    return ('frontend', msg)


def norm(s):
    return re.sub(r'\s+', ' ', s).strip()


def span_text(lines, sp):
    ls, le = sp['line_start'], sp['line_end']
    if ls == le:
        return lines[ls - 1][sp['column_start'] - 1:sp['column_end'] - 1]
    parts = [lines[ls - 1][sp['column_start'] - 1:]]
    parts.extend(lines[ls:le - 1])
    parts.append(lines[le - 1][:sp['column_end'] - 1])
    return ' '.join(parts)


# ---------------------------------------------------------------------------
class UnitRun:
    """One woven unit verified for one property."""

    def __init__(self, pid, unit, roots, variant=None, full=False, repo=None):
        self.pid, self.unit, self.roots = pid, unit, roots
        self.variant = variant or {}
        self.full = full
        self.repo = repo or REPO
        self.weaver = None
        self.text = None
        self.fns = None
        self.closure = None
        self.result = None
        self.failures = []      # dicts: fn, kind, clause, rendered, line
        self.fn_status = {}     # key -> {'success':bool,'time_ms':..,'rlimit':..}

    def prepare(self):
        w = wv.Weaver(self.repo, CONTRACTS)
        text = w.weave(self.unit)
        for k, v in self.variant.items():
            if k not in text:
                raise Undecided('variant marker %s not found' % k)
            text = text.replace(k, v)
        self.weaver = w
        fns = wv.scan_fns(text)
        self.closure = compute_closure(fns, self.roots)
        if not self.full:
            text2 = mark_external(text, fns, self.closure)
            # re-scan to get final line numbers
            fns2 = wv.scan_fns(text2)
            keep_keys = set((fn_key(f), f['mode']) for f in self.closure)
            self.closure = [f for f in fns2 if (fn_key(f), f['mode']) in keep_keys and 'external_body' not in f['attrs']]
            text, fns = text2, fns2
        self.text, self.fns = text, fns
        os.makedirs(os.path.join(WORK, self.pid), exist_ok=True)
        self.path = os.path.join(WORK, self.pid, os.path.splitext(self.unit)[0] + '.rs')
        with open(self.path, 'w') as f:
            f.write(text)
        # ---- shards: the same file, each with a different subset of the closure left to verify
        # (the others become external_body = contract only).  Line numbers are identical in all
        # shards because the marker is inserted on the same line.
        todo = [f for f in self.closure if f['mode'] != 'spec']
        nshards = max(1, min(MAX_SHARDS, len(todo) // 6))
        weights = load_weights()
        todo.sort(key=lambda f: -weights.get(fn_key(f), len(f['text']) / 400.0))
        bins = [[] for _ in range(nshards)]
        load = [0.0] * nshards
        for f in todo:
            i = load.index(min(load))
            bins[i].append(f)
            load[i] += weights.get(fn_key(f), len(f['text']) / 400.0) + 0.3
        self.shards = []
        for i, b in enumerate(bins):
            if not b:
                continue
            if nshards == 1:
                self.shards.append(self.path)
                continue
            keep = set((fn_key(f), f['mode']) for f in b)
            spec_fns = [f for f in self.fns if f['mode'] == 'spec']
            kept = [f for f in self.fns if (fn_key(f), f['mode']) in keep and f['mode'] != 'spec']
            t = mark_external(self.text, self.fns, kept + spec_fns)
            sp = os.path.join(WORK, self.pid, '%s_s%d.rs' % (os.path.splitext(self.unit)[0], i))
            with open(sp, 'w') as f:
                f.write(t)
            self.shards.append(sp)

    def fn_at_line(self, line):
        best = None
        for f in self.fns:
            if f['line_start'] <= line <= f['line_end']:
                if best is None or f['line_start'] >= best['line_start']:
                    best = f
        return best

    def verify(self, rlimit=None):
        import concurrent.futures
        with concurrent.futures.ThreadPoolExecutor(max_workers=len(self.shards)) as pool:
            results = list(pool.map(lambda sp: run_verus(sp, rlimit=rlimit), self.shards))
        res = {'cmd': ' ; '.join(r['cmd'] for r in results), 'rc': max(r['rc'] for r in results),
               'stats': None, 'diags': [], 'wall': max(r['wall'] for r in results), 'stderr': ''}
        seen_d = set()
        for r in results:
            if r['stats'] is None:
                raise_undecided_frontend(r)
            for d in r['diags']:
                key = (d.get('message'), json.dumps(d.get('spans', []), sort_keys=True)[:600])
                if key in seen_d:
                    continue
                seen_d.add(key)
                res['diags'].append(d)
        # merge statistics
        merged = {'times-ms': {'smt': {'smt-run-module-times': []}}}
        for r in results:
            try:
                merged['times-ms']['smt']['smt-run-module-times'].extend(r['stats']['times-ms']['smt']['smt-run-module-times'])
            except (KeyError, TypeError):
                pass
        res['stats'] = merged
        self.result = res
        lines = self.text.split('\n')
        self.failures = []
        frontend = []
        resource = []
        for d in res['diags']:
            cls, kind = classify_diag(d)
            if cls == 'note':
                continue
            prim = [s for s in d.get('spans', []) if s.get('is_primary')]
            sp = prim[0] if prim else (d['spans'][0] if d.get('spans') else None)
            f = self.fn_at_line(sp['line_start']) if sp else None
            if cls == 'frontend':
                frontend.append((kind, f and fn_key(f), d.get('rendered', '')))
                continue
            if cls == 'resource':
                resource.append((kind, f and fn_key(f), d.get('rendered', '')))
                continue
            clause_sp = None
            for s in d.get('spans', []):
                if s.get('label') in ('failed this postcondition', 'failed precondition'):
                    clause_sp = s
            if clause_sp is None:
                clause_sp = sp
            clause = norm(span_text(lines, clause_sp))[:160] if clause_sp else ''
            callee = None
            if kind == 'precondition' and clause_sp is not sp and clause_sp is not None and clause_sp.get('file_name', '').endswith('.rs'):
                cf = self.fn_at_line(clause_sp['line_start'])
                callee = cf and fn_key(cf)
            self.failures.append({'fn': f and fn_key(f), 'kind': kind, 'clause': clause, 'callee': callee,
                                  'line': sp['line_start'] if sp else 0,
                                  'rendered': d.get('rendered', '')})
        if frontend:
            raise Undecided('verus front end rejected the woven file: ' + '; '.join('%s [%s]' % (k, fn) for k, fn, _ in frontend[:3])
                            + '\n' + frontend[0][2])
        self.resource = resource
        st = res['stats']
        if st is None:
            raise Undecided('verus produced no statistics (rc=%s): %s' % (res['rc'], res['stderr'][-2000:]))
        self.fn_status = {}
        try:
            mods = st['times-ms']['smt']['smt-run-module-times']
        except KeyError:
            mods = []
        for m in mods:
            for fb in m.get('function-breakdown', []):
                name = fb['function']
                name = name.split('::', 1)[1] if '::' in name else name
                e = self.fn_status.setdefault(name, {'success': True, 'time_ms': 0, 'rlimit': 0, 'mode': fb.get('mode:', fb.get('mode'))})
                e['success'] = e['success'] and fb['success']
                e['time_ms'] += fb['time']
                e['rlimit'] += fb['rlimit']
        return res


def obligation_id(unit, fl):
    u = os.path.splitext(unit)[0]
    return '%s/%s#%s@%s' % (u, fl['fn'], fl['kind'], fl['clause'])


def load_known():
    p = os.path.join(VERIF, 'known_findings.json')
    if not os.path.exists(p):
        return {'findings': [], 'fixed': []}
    return load_json(p)


def match_known(pid, fl, known):
    for k in known.get('findings', []):
        if k['property'] != pid:
            continue
        if k.get('function') and k['function'] != fl['fn']:
            continue
        if k.get('kind') and k['kind'] != fl['kind']:
            continue
        if k.get('clause_contains') and k['clause_contains'] not in fl['clause']:
            continue
        return k
    return None


def scan_assumptions(text):
    """Mechanical scan for everything that is assumed rather than proved."""
    out = {'assume': 0, 'admit': 0, 'external_body': [], 'assume_specification': [], 'external': 0}
    skip = ex._skip_map(text)
    for m in re.finditer(r'\bassume\s*\(', text):
        if not skip[m.start()]:
            out['assume'] += 1
    for m in re.finditer(r'\badmit\s*\(', text):
        if not skip[m.start()]:
            out['admit'] += 1
    for m in re.finditer(r'assume_specification\s*(?:<[^>]*>)?\s*\[([^\]]*)\]', text):
        if not skip[m.start()]:
            out['assume_specification'].append(norm(m.group(1)))
    for m in re.finditer(r'#\[verifier::external\]', text):
        if not skip[m.start()]:
            out['external'] += 1
    return out
